//! Compile probe for property C15(a): the public data types are Send + Sync.
//! `cargo check` of this crate failing with E0277 while evalexpr itself compiles is the violation.
use evalexpr::*;

fn ok<T: Send + Sync>() {}

pub fn node_is_send_sync() {
    ok::<Node<DefaultNumericTypes>>();
}
pub fn value_is_send_sync() {
    ok::<Value<DefaultNumericTypes>>();
}
pub fn error_is_send_sync() {
    ok::<EvalexprError<DefaultNumericTypes>>();
}
pub fn function_is_send_sync() {
    ok::<Function<DefaultNumericTypes>>();
}
pub fn operator_is_send_sync() {
    ok::<Operator<DefaultNumericTypes>>();
}
pub fn hashmapcontext_is_send_sync() {
    ok::<HashMapContext<DefaultNumericTypes>>();
}
pub fn emptycontext_is_send_sync() {
    ok::<EmptyContext<DefaultNumericTypes>>();
}
pub fn emptycontextwithbuiltinfunctions_is_send_sync() {
    ok::<EmptyContextWithBuiltinFunctions<DefaultNumericTypes>>();
}
