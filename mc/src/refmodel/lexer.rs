//! Independent reference lexer (properties C06, C07), written from the README: string literals with
//! the two escapes `\\` and `\"`, `/* */` and `//` comments, Unicode whitespace, longest-match
//! operators, and the classification of a maximal word into decimal / `0x` integer, positional or
//! scientific float (an exponent sign joins `<mantissa>e` or `<mantissa>E`, sign and digits into one literal),
//! boolean, or identifier.

use super::value::RV;

#[derive(Clone, Debug)]
pub enum LTok {
    Int(i64),
    Float(f64),
    Bool(bool),
    Str(String),
    Ident(String),
    Op(&'static str),
}

impl LTok {
    pub fn same(&self, o: &LTok) -> bool {
        match (self, o) {
            (LTok::Int(a), LTok::Int(b)) => a == b,
            (LTok::Float(a), LTok::Float(b)) => a.to_bits() == b.to_bits() || (a.is_nan() && b.is_nan()),
            (LTok::Bool(a), LTok::Bool(b)) => a == b,
            (LTok::Str(a), LTok::Str(b)) => a == b,
            (LTok::Ident(a), LTok::Ident(b)) => a == b,
            (LTok::Op(a), LTok::Op(b)) => a == b,
            _ => false,
        }
    }
    pub fn show(&self) -> String {
        match self {
            LTok::Int(i) => format!("Int({})", i),
            LTok::Float(f) => format!("Float({:?})", f),
            LTok::Bool(b) => format!("Bool({})", b),
            LTok::Str(s) => format!("Str({:?})", s),
            LTok::Ident(s) => format!("Ident({})", s),
            LTok::Op(s) => format!("Op({})", s),
        }
    }
    /// The leaf this token becomes in an operator tree, if it is a value or identifier.
    pub fn leaf(&self) -> Option<Leaf> {
        match self {
            LTok::Int(i) => Some(Leaf::Const(RV::Int(*i))),
            LTok::Float(f) => Some(Leaf::Const(RV::Float(*f))),
            LTok::Bool(b) => Some(Leaf::Const(RV::Bool(*b))),
            LTok::Str(s) => Some(Leaf::Const(RV::Str(s.clone()))),
            LTok::Ident(s) => Some(Leaf::Ident(s.clone())),
            LTok::Op(_) => None,
        }
    }
}

pub fn same_tokens(a: &[LTok], b: &[LTok]) -> bool {
    a.len() == b.len() && a.iter().zip(b).all(|(x, y)| x.same(y))
}

#[derive(Clone, Debug)]
pub enum Leaf {
    Const(RV),
    Ident(String),
}

impl Leaf {
    pub fn same(&self, o: &Leaf) -> bool {
        match (self, o) {
            (Leaf::Const(a), Leaf::Const(b)) => a.bits_eq(b),
            (Leaf::Ident(a), Leaf::Ident(b)) => a == b,
            _ => false,
        }
    }
    pub fn show(&self) -> String {
        match self {
            Leaf::Const(v) => v.key(),
            Leaf::Ident(s) => format!("ident:{}", s),
        }
    }
}

#[derive(Clone, Debug, PartialEq, Eq)]
pub enum Fault {
    UnterminatedString,
    IllegalEscape(String),
    UnterminatedComment,
    LoneAmpersandOrBar,
}

const OPS3: [&str; 2] = ["&&=", "||="];
const OPS2: [&str; 12] = ["&&", "||", "==", "!=", "<=", ">=", "+=", "-=", "*=", "/=", "%=", "^="];
const OPS1: [&str; 14] = ["+", "-", "*", "/", "%", "^", "=", "!", "<", ">", "(", ")", ",", ";"];

fn is_op_char(c: char) -> bool {
    matches!(c, '+' | '-' | '*' | '/' | '%' | '^' | '(' | ')' | ',' | ';' | '=' | '!' | '>' | '<' | '&' | '|')
}

fn is_word_char(c: char) -> bool {
    !c.is_whitespace() && !is_op_char(c) && c != '"'
}

fn all_digits(s: &str) -> bool {
    !s.is_empty() && s.bytes().all(|b| b.is_ascii_digit())
}

/// `D+ '.' D*  |  '.' D+  |  D+`
fn is_mantissa(s: &str) -> bool {
    match s.split_once('.') {
        None => all_digits(s),
        Some((a, b)) => {
            (all_digits(a) && (b.is_empty() || all_digits(b))) || (a.is_empty() && all_digits(b))
        },
    }
}

#[derive(Clone, Debug, PartialEq)]
pub enum WordClass {
    Int(i64),
    /// integer digits beyond the i64 range: not claimed
    HugeInt,
    Float(f64),
    Bool(bool),
    Ident,
}

/// Classification of a maximal word that contains no exponent sign.
pub fn classify_word(w: &str) -> WordClass {
    if all_digits(w) {
        return match w.parse::<i64>() {
            Ok(i) => WordClass::Int(i),
            Err(_) => WordClass::HugeInt,
        };
    }
    if let Some(h) = w.strip_prefix("0x") {
        if !h.is_empty() && h.bytes().all(|b| b.is_ascii_hexdigit()) {
            return match i64::from_str_radix(h, 16) {
                Ok(i) => WordClass::Int(i),
                Err(_) => WordClass::Ident, // too large: falls through to identifier (not claimed either way)
            };
        }
    }
    // positional / scientific without exponent sign
    let (mant, exp) = match w.find(['e', 'E']) {
        Some(p) => (&w[..p], Some(&w[p + 1..])),
        None => (w, None),
    };
    let float_shape = is_mantissa(mant)
        && match exp {
            None => mant.contains('.'),
            Some(e) => all_digits(e),
        };
    if float_shape {
        if let Ok(f) = w.parse::<f64>() {
            return WordClass::Float(f);
        }
    }
    match w {
        "true" => WordClass::Bool(true),
        "false" => WordClass::Bool(false),
        _ => WordClass::Ident,
    }
}

/// Lexes a source; collects every fault it meets (the real tokenizer stops at its first one).
pub fn lex(src: &str) -> Result<Vec<LTok>, Vec<Fault>> {
    let cs: Vec<char> = src.chars().collect();
    let mut i = 0;
    let mut out = Vec::new();
    let mut faults = Vec::new();
    let starts = |i: usize, pat: &str| -> bool {
        let p: Vec<char> = pat.chars().collect();
        i + p.len() <= cs.len() && cs[i..i + p.len()] == p[..]
    };
    'outer: while i < cs.len() {
        let c = cs[i];
        if c.is_whitespace() {
            i += 1;
            continue;
        }
        if c == '"' {
            i += 1;
            let mut s = String::new();
            loop {
                if i >= cs.len() {
                    faults.push(Fault::UnterminatedString);
                    break 'outer;
                }
                match cs[i] {
                    '"' => {
                        i += 1;
                        break;
                    },
                    '\\' => {
                        if i + 1 >= cs.len() {
                            faults.push(Fault::IllegalEscape("\\".into()));
                            faults.push(Fault::UnterminatedString);
                            break 'outer;
                        }
                        match cs[i + 1] {
                            '"' => s.push('"'),
                            '\\' => s.push('\\'),
                            other => faults.push(Fault::IllegalEscape(format!("\\{}", other))),
                        }
                        i += 2;
                    },
                    other => {
                        s.push(other);
                        i += 1;
                    },
                }
            }
            out.push(LTok::Str(s));
            continue;
        }
        if starts(i, "//") {
            i += 2;
            while i < cs.len() && cs[i] != '\n' {
                i += 1;
            }
            i += 1; // the newline (if any)
            continue;
        }
        if starts(i, "/*") {
            i += 2;
            loop {
                if i + 1 >= cs.len() {
                    faults.push(Fault::UnterminatedComment);
                    break 'outer;
                }
                if cs[i] == '*' && cs[i + 1] == '/' {
                    i += 2;
                    break;
                }
                i += 1;
            }
            continue;
        }
        if is_op_char(c) {
            let mut matched = None;
            for o in OPS3.iter().chain(OPS2.iter()).chain(OPS1.iter()) {
                if starts(i, o) {
                    matched = Some(*o);
                    break;
                }
            }
            match matched {
                Some(o) => {
                    out.push(LTok::Op(o));
                    i += o.chars().count();
                },
                None => {
                    faults.push(Fault::LoneAmpersandOrBar);
                    i += 1;
                },
            }
            continue;
        }
        // a word
        let start = i;
        while i < cs.len() && is_word_char(cs[i]) {
            i += 1;
        }
        let w: String = cs[start..i].iter().collect();
        // exponent sign: `<mantissa>e` + sign + digits is one float literal
        let class = classify_word(&w);
        if class == WordClass::Ident
            && (w.ends_with('e') || w.ends_with('E'))
            && is_mantissa(&w[..w.len() - 1])
            && i + 1 < cs.len()
            && (cs[i] == '+' || cs[i] == '-')
        {
            let mut j = i + 1;
            while j < cs.len() && is_word_char(cs[j]) {
                j += 1;
            }
            let tail: String = cs[i + 1..j].iter().collect();
            if all_digits(&tail) {
                let text = format!("{}{}{}", w, cs[i], tail);
                if let Ok(f) = text.parse::<f64>() {
                    out.push(LTok::Float(f));
                    i = j;
                    continue;
                }
            }
        }
        out.push(match class {
            WordClass::Int(n) => LTok::Int(n),
            WordClass::HugeInt => LTok::Float(w.parse::<f64>().unwrap_or(f64::NAN)),
            WordClass::Float(f) => LTok::Float(f),
            WordClass::Bool(b) => LTok::Bool(b),
            WordClass::Ident => LTok::Ident(w),
        });
    }
    if faults.is_empty() {
        Ok(out)
    } else {
        Err(faults)
    }
}

/// Leaves (constants and identifiers) of a real operator tree in source order.
pub fn real_leaves(n: &evalexpr::Node<evalexpr::DefaultNumericTypes>, out: &mut Vec<Leaf>) {
    use evalexpr::Operator as O;
    match n.operator() {
        O::Const { value } => out.push(Leaf::Const(RV::from_ev(value))),
        O::VariableIdentifierRead { identifier }
        | O::VariableIdentifierWrite { identifier }
        | O::FunctionIdentifier { identifier } => out.push(Leaf::Ident(identifier.clone())),
        _ => {},
    }
    for c in n.children() {
        real_leaves(c, out);
    }
}

/// Is this real error one the tokenizer raises (as opposed to the tree builder)?
pub fn is_lexical_error(e: &evalexpr::EvalexprError) -> bool {
    use evalexpr::EvalexprError as E;
    match e {
        E::UnmatchedDoubleQuote | E::IllegalEscapeSequence(_) | E::UnmatchedPartialToken { .. } => true,
        E::CustomMessage(m) => m.contains("comment"),
        _ => false,
    }
}
