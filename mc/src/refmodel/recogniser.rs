//! Independent well-formedness recogniser over token classes (property C13).
//!
//!   seq     := elem ((',' | ';') elem)*            elements may be absent
//!   elem    := ε | expr
//!   expr    := operand (binop operand)*            binop: every binary operator incl. assignments, binary '-'
//!   operand := ('-' | '!')* primary
//!   primary := literal | ident | ident primary | '(' seq ')'

#[derive(Clone, Copy, PartialEq, Eq, Debug, Hash)]
pub enum T {
    /// literal (number, boolean, string)
    Lit(&'static str),
    Ident(&'static str),
    /// an operator that can only be binary (`+ * / % ^ == != < > <= >= && || = += ...`)
    Bin(&'static str),
    /// `-`: binary after an operand, prefix otherwise
    Minus,
    /// `!`: prefix only
    Not,
    LParen,
    RParen,
    Comma,
    Semi,
}

impl T {
    pub fn text(&self) -> &'static str {
        match self {
            T::Lit(s) | T::Ident(s) | T::Bin(s) => s,
            T::Minus => "-",
            T::Not => "!",
            T::LParen => "(",
            T::RParen => ")",
            T::Comma => ",",
            T::Semi => ";",
        }
    }
}

pub fn render(ts: &[T]) -> String {
    ts.iter().map(|t| t.text()).collect::<Vec<_>>().join(" ")
}

#[derive(Clone, Copy, PartialEq, Eq, Debug, Hash)]
pub enum Class {
    WellFormed,
    /// parentheses do not balance
    Unbalanced,
    /// balanced, but an operator lacks an operand or two operands are juxtaposed outside the
    /// function-application form
    IllFormed,
}

pub fn balanced(ts: &[T]) -> bool {
    let mut depth = 0i64;
    for t in ts {
        match t {
            T::LParen => depth += 1,
            T::RParen => {
                depth -= 1;
                if depth < 0 {
                    return false;
                }
            },
            _ => {},
        }
    }
    depth == 0
}

struct P<'a> {
    ts: &'a [T],
    pos: usize,
}

impl<'a> P<'a> {
    fn peek(&self) -> Option<T> {
        self.ts.get(self.pos).copied()
    }
    fn seq(&mut self) -> bool {
        loop {
            if !self.elem() {
                return false;
            }
            match self.peek() {
                Some(T::Comma) | Some(T::Semi) => self.pos += 1,
                _ => return true,
            }
        }
    }
    fn elem(&mut self) -> bool {
        match self.peek() {
            None | Some(T::Comma) | Some(T::Semi) | Some(T::RParen) => true,
            _ => self.expr(),
        }
    }
    fn expr(&mut self) -> bool {
        if !self.operand() {
            return false;
        }
        while let Some(T::Bin(_)) | Some(T::Minus) = self.peek() {
            self.pos += 1;
            if !self.operand() {
                return false;
            }
        }
        true
    }
    fn operand(&mut self) -> bool {
        while let Some(T::Minus) | Some(T::Not) = self.peek() {
            self.pos += 1;
        }
        self.primary()
    }
    fn primary(&mut self) -> bool {
        match self.peek() {
            Some(T::Lit(_)) => {
                self.pos += 1;
                true
            },
            Some(T::Ident(_)) => {
                self.pos += 1;
                match self.peek() {
                    Some(T::Lit(_)) | Some(T::Ident(_)) | Some(T::LParen) => self.primary(),
                    _ => true,
                }
            },
            Some(T::LParen) => {
                self.pos += 1;
                if !self.seq() {
                    return false;
                }
                if self.peek() == Some(T::RParen) {
                    self.pos += 1;
                    true
                } else {
                    false
                }
            },
            _ => false,
        }
    }
}

pub fn classify(ts: &[T]) -> Class {
    if !balanced(ts) {
        return Class::Unbalanced;
    }
    let mut p = P { ts, pos: 0 };
    if p.seq() && p.pos == ts.len() {
        Class::WellFormed
    } else {
        Class::IllFormed
    }
}

#[cfg(test)]
mod tests {
    use super::*;
    #[test]
    fn examples() {
        let l = T::Lit("1");
        let a = T::Ident("a");
        let plus = T::Bin("+");
        assert_eq!(classify(&[l, plus, l]), Class::WellFormed);
        assert_eq!(classify(&[plus, l, l]), Class::IllFormed);
        assert_eq!(classify(&[l, plus, l, T::LParen, T::RParen]), Class::IllFormed);
        assert_eq!(classify(&[T::Minus, l, T::LParen, T::RParen]), Class::IllFormed);
        assert_eq!(classify(&[a, a, l]), Class::WellFormed);
        assert_eq!(classify(&[a, l, l]), Class::IllFormed);
        assert_eq!(classify(&[l, a]), Class::IllFormed);
        assert_eq!(classify(&[T::Semi, T::LParen, T::Comma, T::Semi]), Class::Unbalanced);
        assert_eq!(classify(&[l, T::Comma, l, T::Semi, l]), Class::WellFormed);
        assert_eq!(classify(&[]), Class::WellFormed);
        assert_eq!(classify(&[a, T::LParen, T::RParen]), Class::WellFormed);
        assert_eq!(classify(&[l, T::Minus, T::Minus, l]), Class::WellFormed);
        assert_eq!(classify(&[l, T::Not, l]), Class::IllFormed);
    }
}
