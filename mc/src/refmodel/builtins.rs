//! Reference table of the 49 builtin functions (property C10), written from the README table.
//! The argument is the single value the function receives: Empty for `f()`, the value for `f(x)`,
//! a tuple for `f(a, b, ...)`.

use super::value::RV;

pub const BUILTIN_NAMES: [&str; 49] = [
    "min",
    "max",
    "len",
    "floor",
    "round",
    "ceil",
    "if",
    "contains",
    "contains_any",
    "typeof",
    "math::is_nan",
    "math::is_finite",
    "math::is_infinite",
    "math::is_normal",
    "math::ln",
    "math::log",
    "math::log2",
    "math::log10",
    "math::exp",
    "math::exp2",
    "math::pow",
    "math::cos",
    "math::acos",
    "math::cosh",
    "math::acosh",
    "math::sin",
    "math::asin",
    "math::sinh",
    "math::asinh",
    "math::tan",
    "math::atan",
    "math::atan2",
    "math::tanh",
    "math::atanh",
    "math::sqrt",
    "math::cbrt",
    "math::hypot",
    "math::abs",
    "str::to_lowercase",
    "str::to_uppercase",
    "str::trim",
    "str::from",
    "str::substring",
    "bitand",
    "bitor",
    "bitxor",
    "bitnot",
    "shl",
    "shr",
];

/// The indexing unit shared by `len` and `str::substring` (README says characters, the code uses
/// bytes; only their mutual consistency is claimed, so the unit is inferred from `len`).
#[derive(Clone, Copy, Debug, PartialEq, Eq)]
pub enum Unit {
    Bytes,
    Chars,
}

#[derive(Clone, Debug)]
pub enum BExpect {
    /// exactly this value (bit-exact, NaNs identified)
    Val(RV),
    /// any one of these values
    AnyOf(Vec<RV>),
    /// an error (any), never a value
    Error,
    /// not claimed by the property (only C01 applies)
    Unclaimed,
}

impl BExpect {
    pub fn describe(&self) -> String {
        match self {
            BExpect::Val(v) => format!("value {}", v.key()),
            BExpect::AnyOf(vs) => format!(
                "one of {}",
                vs.iter().map(|v| v.key()).collect::<Vec<_>>().join(" | ")
            ),
            BExpect::Error => "an error".into(),
            BExpect::Unclaimed => "unclaimed".into(),
        }
    }
}

fn num(v: &RV) -> Option<f64> {
    match v {
        RV::Int(i) => Some(*i as f64),
        RV::Float(f) => Some(*f),
        _ => None,
    }
}

fn tuple_n(arg: &RV, n: usize) -> Option<&[RV]> {
    match arg {
        RV::Tuple(t) if t.len() == n => Some(t),
        _ => None,
    }
}

fn math1(arg: &RV, f: fn(f64) -> f64) -> BExpect {
    match num(arg) {
        Some(x) => BExpect::Val(RV::Float(f(x))),
        None => BExpect::Error,
    }
}

fn math2(arg: &RV, f: fn(f64, f64) -> f64) -> BExpect {
    match tuple_n(arg, 2).map(|t| (num(&t[0]), num(&t[1]))) {
        Some((Some(a), Some(b))) => BExpect::Val(RV::Float(f(a, b))),
        _ => BExpect::Error,
    }
}

fn pred1(arg: &RV, f: fn(f64) -> bool) -> BExpect {
    match num(arg) {
        Some(x) => BExpect::Val(RV::Bool(f(x))),
        None => BExpect::Error,
    }
}

fn int2(arg: &RV, f: fn(i64, i64) -> BExpect) -> BExpect {
    match tuple_n(arg, 2) {
        Some([RV::Int(a), RV::Int(b)]) => f(*a, *b),
        _ => BExpect::Error,
    }
}

/// Exact numeric `a <= b` for int/float pairs (no NaN).
fn le_exact(a: &RV, b: &RV) -> bool {
    match (a, b) {
        (RV::Int(x), RV::Int(y)) => x <= y,
        (RV::Float(x), RV::Float(y)) => x <= y,
        (RV::Int(i), RV::Float(f)) => int_le_float(*i, *f),
        (RV::Float(f), RV::Int(i)) => float_le_int(*f, *i),
        _ => false,
    }
}
fn int_le_float(i: i64, f: f64) -> bool {
    if f >= 9223372036854775808.0 {
        return true;
    }
    if f < -9223372036854775808.0 {
        return false;
    }
    // i <= f  <=>  i <= floor(f)
    i <= f.floor() as i64
}
fn float_le_int(f: f64, i: i64) -> bool {
    if f >= 9223372036854775808.0 {
        return false;
    }
    if f < -9223372036854775808.0 {
        return true;
    }
    // f <= i  <=>  ceil(f) <= i
    (f.ceil() as i64) <= i
}
fn le_conv(a: &RV, b: &RV) -> bool {
    match (a, b) {
        (RV::Int(x), RV::Int(y)) => x <= y,
        _ => num(a).unwrap() <= num(b).unwrap(),
    }
}

fn min_max(arg: &RV, want_max: bool) -> BExpect {
    let args: Vec<RV> = match arg {
        RV::Int(_) | RV::Float(_) => vec![arg.clone()],
        RV::Tuple(t) => t.clone(),
        _ => return BExpect::Error,
    };
    if args.is_empty() || args.iter().any(|a| num(a).is_none()) {
        return BExpect::Error;
    }
    if args.iter().any(|a| matches!(a, RV::Float(f) if f.is_nan())) {
        return BExpect::Unclaimed;
    }
    // an argument that is smallest (largest) under the exact or under the converted comparison;
    // the two differ only for mixed pairs beyond 2^53, ties may be returned with either type
    let mut cands: Vec<RV> = Vec::new();
    for le in [le_exact as fn(&RV, &RV) -> bool, le_conv] {
        for a in &args {
            let extreme = args.iter().all(|b| if want_max { le(b, a) } else { le(a, b) });
            if extreme && !cands.iter().any(|c| c.bits_eq(a)) {
                cands.push(a.clone());
            }
        }
    }
    // -0.0 and 0.0 compare equal: both are "an argument that is numerically smallest" if either is
    BExpect::AnyOf(cands)
}

fn is_scalar_needle(v: &RV) -> bool {
    matches!(v, RV::Str(_) | RV::Int(_) | RV::Float(_) | RV::Bool(_))
}

fn contains_both(hay: &[RV], needle: &RV) -> Vec<bool> {
    // membership by the language's `==`; where IEEE and bitwise equality differ either reading is accepted
    let ieee = hay.iter().any(|h| h.ieee_eq(needle));
    let bits = hay.iter().any(|h| h.bits_eq(needle));
    if ieee == bits {
        vec![ieee]
    } else {
        vec![ieee, bits]
    }
}

fn str_from(v: &RV) -> String {
    match v {
        RV::Str(s) => s.clone(),
        RV::Float(f) => format!("{}", f),
        RV::Int(i) => format!("{}", i),
        RV::Bool(b) => format!("{}", b),
        RV::Tuple(_) => display(v),
        RV::Empty => "()".into(),
    }
}

/// Documented display form of values: strings quoted, tuples parenthesised and comma separated.
pub fn display(v: &RV) -> String {
    match v {
        RV::Str(s) => format!("\"{}\"", s),
        RV::Float(f) => format!("{}", f),
        RV::Int(i) => format!("{}", i),
        RV::Bool(b) => format!("{}", b),
        RV::Tuple(t) => format!("({})", t.iter().map(display).collect::<Vec<_>>().join(", ")),
        RV::Empty => "()".into(),
    }
}

pub fn unit_len(s: &str, unit: Unit) -> usize {
    match unit {
        Unit::Bytes => s.len(),
        Unit::Chars => s.chars().count(),
    }
}

fn substring(s: &str, start: i64, end: Option<i64>, unit: Unit) -> BExpect {
    let n = unit_len(s, unit) as i128;
    let start = start as i128;
    let end = end.map(|e| e as i128).unwrap_or(n);
    if start < 0 || end < 0 || start > end || end > n {
        return BExpect::Error;
    }
    let (a, b) = (start as usize, end as usize);
    match unit {
        Unit::Bytes => match s.get(a..b) {
            Some(x) => BExpect::Val(RV::Str(x.to_string())),
            None => BExpect::Error, // not on a character boundary
        },
        Unit::Chars => BExpect::Val(RV::Str(s.chars().skip(a).take(b - a).collect())),
    }
}

pub fn reference(name: &str, arg: &RV, unit: Unit) -> BExpect {
    match name {
        "math::ln" => math1(arg, f64::ln),
        "math::log" => math2(arg, f64::log),
        "math::log2" => math1(arg, f64::log2),
        "math::log10" => math1(arg, f64::log10),
        "math::exp" => math1(arg, f64::exp),
        "math::exp2" => math1(arg, f64::exp2),
        "math::pow" => math2(arg, f64::powf),
        "math::cos" => math1(arg, f64::cos),
        "math::acos" => math1(arg, f64::acos),
        "math::cosh" => math1(arg, f64::cosh),
        "math::acosh" => math1(arg, f64::acosh),
        "math::sin" => math1(arg, f64::sin),
        "math::asin" => math1(arg, f64::asin),
        "math::sinh" => math1(arg, f64::sinh),
        "math::asinh" => math1(arg, f64::asinh),
        "math::tan" => math1(arg, f64::tan),
        "math::atan" => math1(arg, f64::atan),
        "math::tanh" => math1(arg, f64::tanh),
        "math::atanh" => math1(arg, f64::atanh),
        "math::atan2" => math2(arg, f64::atan2),
        "math::sqrt" => math1(arg, f64::sqrt),
        "math::cbrt" => math1(arg, f64::cbrt),
        "math::hypot" => math2(arg, f64::hypot),
        "floor" => math1(arg, f64::floor),
        "round" => math1(arg, f64::round),
        "ceil" => math1(arg, f64::ceil),
        "math::is_nan" => pred1(arg, f64::is_nan),
        "math::is_finite" => pred1(arg, f64::is_finite),
        "math::is_infinite" => pred1(arg, f64::is_infinite),
        "math::is_normal" => pred1(arg, f64::is_normal),
        "math::abs" => match arg {
            RV::Int(i) => match i64::checked_abs(*i) {
                Some(a) => BExpect::Val(RV::Int(a)),
                None => BExpect::Error,
            },
            RV::Float(f) => BExpect::Val(RV::Float(f64::abs(*f))),
            _ => BExpect::Error,
        },
        "typeof" => BExpect::Val(RV::Str(
            match arg {
                RV::Str(_) => "string",
                RV::Float(_) => "float",
                RV::Int(_) => "int",
                RV::Bool(_) => "boolean",
                RV::Tuple(_) => "tuple",
                RV::Empty => "empty",
            }
            .into(),
        )),
        "min" => min_max(arg, false),
        "max" => min_max(arg, true),
        "if" => match tuple_n(arg, 3) {
            Some([RV::Bool(c), a, b]) => BExpect::Val(if *c { a.clone() } else { b.clone() }),
            _ => BExpect::Error,
        },
        "contains" => match tuple_n(arg, 2) {
            Some([RV::Tuple(hay), needle]) => {
                if is_scalar_needle(needle) {
                    BExpect::AnyOf(contains_both(hay, needle).into_iter().map(RV::Bool).collect())
                } else if matches!(needle, RV::Empty) {
                    // README: "any non-tuple"; the code rejects the empty value
                    BExpect::Unclaimed
                } else {
                    BExpect::Error
                }
            },
            _ => BExpect::Error,
        },
        "contains_any" => match tuple_n(arg, 2) {
            Some([RV::Tuple(hay), RV::Tuple(needles)]) => {
                if needles.iter().any(|n| matches!(n, RV::Tuple(_))) {
                    BExpect::Error
                } else if needles.iter().any(|n| matches!(n, RV::Empty)) {
                    BExpect::Unclaimed
                } else {
                    // any needle contained, under either equality reading
                    let per: Vec<Vec<bool>> = needles.iter().map(|n| contains_both(hay, n)).collect();
                    let lo = per.iter().any(|p| p.iter().all(|b| *b));
                    let hi = per.iter().any(|p| p.iter().any(|b| *b));
                    if lo == hi {
                        BExpect::Val(RV::Bool(lo))
                    } else {
                        BExpect::AnyOf(vec![RV::Bool(lo), RV::Bool(hi)])
                    }
                }
            },
            _ => BExpect::Error,
        },
        "len" => match arg {
            RV::Str(s) => BExpect::Val(RV::Int(unit_len(s, unit) as i64)),
            RV::Tuple(t) => BExpect::Val(RV::Int(t.len() as i64)),
            _ => BExpect::Error,
        },
        "str::to_lowercase" => match arg {
            RV::Str(s) => BExpect::Val(RV::Str(s.to_lowercase())),
            _ => BExpect::Error,
        },
        "str::to_uppercase" => match arg {
            RV::Str(s) => BExpect::Val(RV::Str(s.to_uppercase())),
            _ => BExpect::Error,
        },
        "str::trim" => match arg {
            RV::Str(s) => BExpect::Val(RV::Str(s.trim().to_string())),
            _ => BExpect::Error,
        },
        "str::from" => BExpect::Val(RV::Str(str_from(arg))),
        "str::substring" => match arg {
            RV::Tuple(t) => match t.as_slice() {
                [RV::Str(s), RV::Int(a)] => substring(s, *a, None, unit),
                [RV::Str(s), RV::Int(a), RV::Int(b)] => substring(s, *a, Some(*b), unit),
                _ => BExpect::Error,
            },
            _ => BExpect::Error,
        },
        "bitand" => int2(arg, |a, b| BExpect::Val(RV::Int(a & b))),
        "bitor" => int2(arg, |a, b| BExpect::Val(RV::Int(a | b))),
        "bitxor" => int2(arg, |a, b| BExpect::Val(RV::Int(a ^ b))),
        "bitnot" => match arg {
            RV::Int(a) => BExpect::Val(RV::Int(!*a)),
            _ => BExpect::Error,
        },
        "shl" => int2(arg, |a, n| {
            if (0..=63).contains(&n) {
                BExpect::Val(RV::Int(((a as u64) << n) as i64))
            } else {
                BExpect::Unclaimed
            }
        }),
        "shr" => int2(arg, |a, n| {
            if (0..=63).contains(&n) {
                BExpect::Val(RV::Int(a >> n))
            } else {
                BExpect::Unclaimed
            }
        }),
        _ => BExpect::Error,
    }
}

/// Does the real outcome satisfy the expectation? `None` = unclaimed.
pub fn accepts(exp: &BExpect, actual: &Result<super::value::EV, evalexpr::EvalexprError>) -> Option<bool> {
    Some(match (exp, actual) {
        (BExpect::Unclaimed, _) => return None,
        (BExpect::Val(v), Ok(a)) => v.bits_eq(&RV::from_ev(a)),
        (BExpect::AnyOf(vs), Ok(a)) => {
            let a = RV::from_ev(a);
            vs.iter().any(|v| v.bits_eq(&a))
        },
        (BExpect::Error, Err(_)) => true,
        _ => false,
    })
}
