//! Reference AST, its minimal-parentheses renderer (from the README precedence table), the
//! normal form shared with real operator trees, and exhaustive AST enumeration by unranking.

use super::ops::{BinOp, UnOp, ASSIGN_BINOPS, BINOPS, UNOPS};
use super::value::{quote, RV};
use evalexpr::{DefaultNumericTypes, Node, Operator};

#[derive(Clone, Debug)]
pub enum Ast {
    /// a variable read
    Var(String),
    /// a literal: non-negative number, boolean or string
    Lit(RV),
    /// `()` or an absent sequence element
    Unit,
    Bin(BinOp, Box<Ast>, Box<Ast>),
    Pre(UnOp, Box<Ast>),
    /// `x = e` (None) or `x op= e`
    Asg(Option<BinOp>, String, Box<Ast>),
    /// function application to a single argument
    Call(String, Box<Ast>),
    /// `,` sequence (at least two elements)
    Tuple(Vec<Ast>),
    /// `;` sequence (at least two elements)
    Chain(Vec<Ast>),
    /// `e op` — a binary operator whose right operand is missing (malformed, but the tree builder
    /// accepts it; evaluation must evaluate `e` and then fail on the operand count)
    Partial(BinOp, Box<Ast>),
}

pub const PREC_VALUE: i32 = 200;
pub const PREC_CALL: i32 = 190;
pub const PREC_PREFIX: i32 = 110;
pub const PREC_ASSIGN: i32 = 50;
pub const PREC_TUPLE: i32 = 40;
pub const PREC_CHAIN: i32 = 0;
/// pseudo-precedence of an incomplete operator application: parenthesised everywhere except as a
/// chain element or at top level, so that nothing can follow its operator
pub const PREC_PARTIAL: i32 = 1;

impl Ast {
    /// README precedence of the top operator of this expression.
    pub fn prec(&self) -> i32 {
        match self {
            Ast::Var(_) | Ast::Lit(_) | Ast::Unit => PREC_VALUE,
            Ast::Bin(op, _, _) => op.prec(),
            Ast::Pre(_, _) => PREC_PREFIX,
            Ast::Asg(_, _, _) => PREC_ASSIGN,
            Ast::Call(_, _) => PREC_CALL,
            Ast::Tuple(_) => PREC_TUPLE,
            Ast::Chain(_) => PREC_CHAIN,
            Ast::Partial(_, _) => PREC_PARTIAL,
        }
    }

    pub fn size(&self) -> usize {
        match self {
            Ast::Var(_) | Ast::Lit(_) | Ast::Unit => 0,
            Ast::Bin(_, l, r) => 1 + l.size() + r.size(),
            Ast::Pre(_, e) | Ast::Asg(_, _, e) | Ast::Call(_, e) | Ast::Partial(_, e) => 1 + e.size(),
            Ast::Tuple(es) | Ast::Chain(es) => 1 + es.iter().map(|e| e.size()).sum::<usize>(),
        }
    }
}

// ---------------------------------------------------------------------------------------------
// Normal form shared by reference ASTs and real trees

#[derive(Clone, Debug, PartialEq, Eq, Hash)]
pub struct NT {
    pub label: String,
    pub kids: Vec<NT>,
}

impl NT {
    fn leaf(label: String) -> NT {
        NT { label, kids: vec![] }
    }
    pub fn show(&self) -> String {
        if self.kids.is_empty() {
            self.label.clone()
        } else {
            format!(
                "({} {})",
                self.label,
                self.kids.iter().map(|k| k.show()).collect::<Vec<_>>().join(" ")
            )
        }
    }
}

pub fn asg_label(op: Option<BinOp>) -> String {
    match op {
        None => "=".into(),
        Some(o) => format!("{}=", o.sym()),
    }
}

pub fn ast_to_nt(a: &Ast) -> NT {
    match a {
        Ast::Var(x) => NT::leaf(format!("R:{}", x)),
        Ast::Lit(v) => NT::leaf(format!("K:{}", v.key())),
        Ast::Unit => NT::leaf("unit".into()),
        Ast::Bin(op, l, r) => NT {
            label: op.sym().into(),
            kids: vec![ast_to_nt(l), ast_to_nt(r)],
        },
        Ast::Pre(op, e) => NT {
            label: match op {
                UnOp::Neg => "neg".into(),
                UnOp::Not => "not".into(),
            },
            kids: vec![ast_to_nt(e)],
        },
        Ast::Asg(op, x, e) => NT {
            label: asg_label(*op),
            kids: vec![NT::leaf(format!("W:{}", x)), ast_to_nt(e)],
        },
        Ast::Call(f, e) => NT {
            label: format!("F:{}", f),
            kids: vec![ast_to_nt(e)],
        },
        Ast::Tuple(es) => NT {
            label: ",".into(),
            kids: es.iter().map(ast_to_nt).collect(),
        },
        Ast::Chain(es) => NT {
            label: ";".into(),
            kids: es.iter().map(ast_to_nt).collect(),
        },
        Ast::Partial(op, e) => NT {
            label: op.sym().into(),
            kids: vec![ast_to_nt(e)],
        },
    }
}

/// Normalises a real operator tree: root (parenthesis wrapper) nodes with one child are dropped, an
/// empty root node is the unit; everything else is kept exactly (operator, identifier and its
/// read/write/function class, constant by bits, child order and count).
pub fn node_to_nt(n: &Node<DefaultNumericTypes>) -> NT {
    use Operator as O;
    let kids = || n.children().iter().map(node_to_nt).collect::<Vec<_>>();
    let label = match n.operator() {
        O::RootNode => {
            return match n.children().len() {
                0 => NT::leaf("unit".into()),
                1 => node_to_nt(&n.children()[0]),
                _ => NT {
                    label: "root!".into(),
                    kids: kids(),
                },
            }
        },
        O::Add => "+".to_string(),
        O::Sub => "-".into(),
        O::Neg => "neg".into(),
        O::Mul => "*".into(),
        O::Div => "/".into(),
        O::Mod => "%".into(),
        O::Exp => "^".into(),
        O::Eq => "==".into(),
        O::Neq => "!=".into(),
        O::Gt => ">".into(),
        O::Lt => "<".into(),
        O::Geq => ">=".into(),
        O::Leq => "<=".into(),
        O::And => "&&".into(),
        O::Or => "||".into(),
        O::Not => "not".into(),
        O::Assign => "=".into(),
        O::AddAssign => "+=".into(),
        O::SubAssign => "-=".into(),
        O::MulAssign => "*=".into(),
        O::DivAssign => "/=".into(),
        O::ModAssign => "%=".into(),
        O::ExpAssign => "^=".into(),
        O::AndAssign => "&&=".into(),
        O::OrAssign => "||=".into(),
        O::Tuple => ",".into(),
        O::Chain => ";".into(),
        O::Const { value } => format!("K:{}", RV::from_ev(value).key()),
        O::VariableIdentifierWrite { identifier } => format!("W:{}", identifier),
        O::VariableIdentifierRead { identifier } => format!("R:{}", identifier),
        O::FunctionIdentifier { identifier } => format!("F:{}", identifier),
    };
    NT { label, kids: kids() }
}

/// Expected child count of a normal-form label; `None` for the n-ary sequences.
pub fn nt_arity(label: &str) -> Option<usize> {
    if label == "," || label == ";" {
        None
    } else if label == "unit" || label.starts_with("K:") || label.starts_with("R:") || label.starts_with("W:") {
        Some(0)
    } else if label == "neg" || label == "not" || label.starts_with("F:") {
        Some(1)
    } else {
        Some(2)
    }
}

/// Does every node of the normal form have the operand count its operator needs?
pub fn nt_arity_ok(t: &NT) -> bool {
    if t.label == "root!" {
        return false;
    }
    let ok = match nt_arity(&t.label) {
        None => !t.kids.is_empty(),
        Some(k) => t.kids.len() == k,
    };
    ok && t.kids.iter().all(nt_arity_ok)
}

// ---------------------------------------------------------------------------------------------
// Rendering

#[derive(Clone, Debug, PartialEq, Eq)]
pub enum Tok {
    /// identifier, number or boolean: fuses with a neighbouring word
    Word(String),
    /// quoted string literal (self-delimiting)
    Str(String),
    /// operator or punctuation
    Sym(&'static str),
}

impl Tok {
    pub fn text(&self) -> String {
        match self {
            Tok::Word(w) => w.clone(),
            Tok::Str(s) => quote(s),
            Tok::Sym(s) => s.to_string(),
        }
    }
}

pub fn lit_tok(v: &RV) -> Tok {
    match v {
        RV::Str(s) => Tok::Str(s.clone()),
        other => Tok::Word(other.literal().expect("literal expressible")),
    }
}

pub fn asg_sym(op: Option<BinOp>) -> &'static str {
    match op {
        None => "=",
        Some(BinOp::Add) => "+=",
        Some(BinOp::Sub) => "-=",
        Some(BinOp::Mul) => "*=",
        Some(BinOp::Div) => "/=",
        Some(BinOp::Mod) => "%=",
        Some(BinOp::Exp) => "^=",
        Some(BinOp::And) => "&&=",
        Some(BinOp::Or) => "||=",
        Some(_) => unreachable!("no such assignment operator"),
    }
}

/// How the renderer deviates from the minimal parenthesisation.
#[derive(Clone, Copy, Debug, PartialEq, Eq)]
pub enum Parens {
    /// exactly the parentheses the table requires
    Minimal,
    /// every compound sub-expression parenthesised
    Full,
    /// minimal, plus one redundant pair (doubled if `.1`) around the sub-expression with pre-order index `.0`
    Extra(usize, bool),
    /// minimal, but a prefix operator directly right of `^` is left bare (`x ^ -y`)
    BarePrefixAfterExp,
}

pub struct Renderer {
    mode: Parens,
    counter: usize,
    pub out: Vec<Tok>,
    /// set when BarePrefixAfterExp actually dropped a pair
    pub dropped: bool,
}

fn is_bare_exp(a: &Ast) -> bool {
    // final operand of a chain of prefix operators is a `^` expression rendered without parentheses
    match a {
        Ast::Pre(_, e) => is_bare_exp(e),
        Ast::Bin(BinOp::Exp, _, _) => true,
        _ => false,
    }
}

impl Renderer {
    pub fn render(a: &Ast, mode: Parens) -> Renderer {
        let mut r = Renderer {
            mode,
            counter: 0,
            out: Vec::new(),
            dropped: false,
        };
        r.expr(a, false, false);
        r
    }

    /// Number of sub-expressions that can take a redundant pair (pre-order positions).
    pub fn positions(a: &Ast) -> usize {
        match a {
            Ast::Var(_) | Ast::Lit(_) | Ast::Unit => 1,
            Ast::Bin(_, l, r) => 1 + Self::positions(l) + Self::positions(r),
            Ast::Pre(_, e) | Ast::Asg(_, _, e) | Ast::Call(_, e) | Ast::Partial(_, e) => 1 + Self::positions(e),
            Ast::Tuple(es) | Ast::Chain(es) => 1 + es.iter().map(Self::positions).sum::<usize>(),
        }
    }

    fn sym(&mut self, s: &'static str) {
        self.out.push(Tok::Sym(s));
    }

    /// Renders `a`; `need` = the table requires parentheses here; `exp_left` = this expression is the
    /// left operand of `^` (used by the BarePrefixAfterExp exclusion).
    fn expr(&mut self, a: &Ast, need: bool, exp_left: bool) {
        let idx = self.counter;
        self.counter += 1;
        let compound = !matches!(a, Ast::Var(_) | Ast::Lit(_) | Ast::Unit);
        let mut pairs = 0;
        if need {
            pairs += 1;
        }
        match self.mode {
            Parens::Full if compound && !need => pairs += 1,
            Parens::Extra(i, dbl) if i == idx => pairs += if dbl { 2 } else { 1 },
            _ => {},
        }
        for _ in 0..pairs {
            self.sym("(");
        }
        let inner_exp_left = exp_left && pairs == 0;
        self.bare(a, inner_exp_left);
        for _ in 0..pairs {
            self.sym(")");
        }
    }

    fn bare(&mut self, a: &Ast, exp_left: bool) {
        match a {
            Ast::Var(x) => self.out.push(Tok::Word(x.clone())),
            Ast::Lit(v) => self.out.push(lit_tok(v)),
            Ast::Unit => {
                self.sym("(");
                self.sym(")");
            },
            Ast::Bin(op, l, r) => {
                let p = op.prec();
                self.expr(l, l.prec() < p, *op == BinOp::Exp);
                self.out.push(Tok::Sym(op.sym()));
                let mut need_r = r.prec() <= p;
                if need_r
                    && self.mode == Parens::BarePrefixAfterExp
                    && *op == BinOp::Exp
                    && matches!(**r, Ast::Pre(_, _))
                    && !is_bare_exp(r)
                    && !exp_left
                {
                    need_r = false;
                    self.dropped = true;
                }
                self.expr(r, need_r, false);
            },
            Ast::Pre(op, e) => {
                self.out.push(Tok::Sym(op.sym()));
                self.expr(e, e.prec() < PREC_PREFIX, false);
            },
            Ast::Asg(op, x, e) => {
                self.out.push(Tok::Word(x.clone()));
                self.sym(asg_sym(*op));
                // `=` groups right-to-left: `=` directly under `=` needs no parentheses; any other
                // assignment under an assignment does ("left-to-right has priority when orders are mixed")
                let need = e.prec() < PREC_ASSIGN
                    || (e.prec() == PREC_ASSIGN && !(op.is_none() && matches!(**e, Ast::Asg(None, _, _))));
                self.expr(e, need, false);
            },
            Ast::Call(f, e) => {
                self.out.push(Tok::Word(f.clone()));
                match **e {
                    // `f()` passes the empty value: the unit is its own parentheses
                    Ast::Unit => self.expr(e, false, false),
                    _ => self.expr(e, e.prec() < PREC_CALL, false),
                }
            },
            Ast::Tuple(es) => {
                for (i, e) in es.iter().enumerate() {
                    if i > 0 {
                        self.sym(",");
                    }
                    self.expr(e, e.prec() <= PREC_TUPLE, false);
                }
            },
            Ast::Chain(es) => {
                for (i, e) in es.iter().enumerate() {
                    if i > 0 {
                        self.sym(";");
                    }
                    self.expr(e, e.prec() <= PREC_CHAIN, false);
                }
            },
            Ast::Partial(op, e) => {
                self.expr(e, e.prec() < op.prec(), false);
                self.out.push(Tok::Sym(op.sym()));
            },
        }
    }
}

/// Joins tokens with single spaces.
pub fn join_spaced(toks: &[Tok]) -> String {
    toks.iter().map(|t| t.text()).collect::<Vec<_>>().join(" ")
}

/// Joins tokens without spaces except between two words (which would fuse).
pub fn join_compact(toks: &[Tok]) -> String {
    let mut s = String::new();
    for (i, t) in toks.iter().enumerate() {
        if i > 0 {
            if let (Tok::Word(_), Tok::Word(_)) = (&toks[i - 1], t) {
                s.push(' ');
            }
        }
        s.push_str(&t.text());
    }
    s
}

// ---------------------------------------------------------------------------------------------
// Exhaustive enumeration by unranking

/// The operator alphabet an enumeration ranges over.
#[derive(Clone, Debug)]
pub struct Alphabet {
    pub binops: Vec<BinOp>,
    pub unops: Vec<UnOp>,
    /// assignment operators: None is `=`
    pub asgops: Vec<Option<BinOp>>,
    /// function application `f e`
    pub call: bool,
    /// `f()` (size 1, no leaf)
    pub call_unit: bool,
    /// `f(l, r)`: application to a 2-tuple (size 1 + |l| + |r|)
    pub call_pair: bool,
}

impl Alphabet {
    pub fn full() -> Alphabet {
        let mut asgops = vec![None];
        asgops.extend(ASSIGN_BINOPS.iter().map(|o| Some(*o)));
        Alphabet {
            binops: BINOPS.to_vec(),
            unops: UNOPS.to_vec(),
            asgops,
            call: true,
            call_unit: true,
            call_pair: true,
        }
    }
    /// One representative per class the tree builder can distinguish (see DESIGN.md section 1).
    pub fn representatives() -> Alphabet {
        Alphabet {
            binops: vec![BinOp::Exp, BinOp::Mul, BinOp::Add, BinOp::Eq, BinOp::And, BinOp::Or],
            unops: vec![UnOp::Neg, UnOp::Not],
            asgops: vec![None, Some(BinOp::Add)],
            call: true,
            call_unit: true,
            call_pair: true,
        }
    }
    fn unary_prods(&self) -> u64 {
        (self.unops.len() + self.asgops.len() + self.call as usize) as u64
    }
    fn binary_prods(&self) -> u64 {
        (self.binops.len() + self.call_pair as usize) as u64
    }
}

/// counts[n] = number of AST shapes with exactly n operator nodes.
pub fn shape_counts(alpha: &Alphabet, max: usize) -> Vec<u64> {
    let mut c = vec![0u64; max + 1];
    c[0] = 1;
    for n in 1..=max {
        let mut t = alpha.unary_prods() * c[n - 1];
        let mut pairs = 0u64;
        for i in 0..n {
            pairs += c[i] * c[n - 1 - i];
        }
        t += alpha.binary_prods() * pairs;
        if n == 1 && alpha.call_unit {
            t += 1;
        }
        c[n] = t;
    }
    c
}

/// A shape: an AST whose variable leaves are placeholders, named in source order afterwards.
pub fn unrank(alpha: &Alphabet, counts: &[u64], n: usize, mut idx: u64) -> Ast {
    if n == 0 {
        return Ast::Var(String::new());
    }
    let sub = counts[n - 1];
    for op in &alpha.unops {
        if idx < sub {
            return Ast::Pre(*op, Box::new(unrank(alpha, counts, n - 1, idx)));
        }
        idx -= sub;
    }
    for op in &alpha.asgops {
        if idx < sub {
            return Ast::Asg(*op, String::new(), Box::new(unrank(alpha, counts, n - 1, idx)));
        }
        idx -= sub;
    }
    if alpha.call {
        if idx < sub {
            return Ast::Call(String::new(), Box::new(unrank(alpha, counts, n - 1, idx)));
        }
        idx -= sub;
    }
    let mut pairs = 0u64;
    for i in 0..n {
        pairs += counts[i] * counts[n - 1 - i];
    }
    let split = |mut k: u64| -> (Ast, Ast) {
        for i in 0..n {
            let block = counts[i] * counts[n - 1 - i];
            if k < block {
                let l = unrank(alpha, counts, i, k / counts[n - 1 - i]);
                let r = unrank(alpha, counts, n - 1 - i, k % counts[n - 1 - i]);
                return (l, r);
            }
            k -= block;
        }
        unreachable!("rank out of range")
    };
    for op in &alpha.binops {
        if idx < pairs {
            let (l, r) = split(idx);
            return Ast::Bin(*op, Box::new(l), Box::new(r));
        }
        idx -= pairs;
    }
    if alpha.call_pair {
        if idx < pairs {
            let (l, r) = split(idx);
            return Ast::Call(String::new(), Box::new(Ast::Tuple(vec![l, r])));
        }
        idx -= pairs;
    }
    if n == 1 && alpha.call_unit && idx == 0 {
        return Ast::Call(String::new(), Box::new(Ast::Unit));
    }
    unreachable!("rank out of range")
}

pub const VAR_NAMES: [&str; 8] = ["x", "y", "z", "w", "v", "u", "t", "s"];
pub const FN_NAMES: [&str; 6] = ["f", "g", "h", "k", "m", "n"];
pub const TARGET_NAMES: [&str; 6] = ["p", "q", "r", "o", "l", "j"];

/// Names the placeholder identifiers in source order; leaf number `lit_at` (if any) becomes the literal.
/// Returns the number of variable leaves.
pub fn name_leaves(a: &mut Ast, lit_at: Option<(usize, &RV)>) -> usize {
    fn go(a: &mut Ast, v: &mut usize, f: &mut usize, t: &mut usize, lit_at: &Option<(usize, &RV)>) {
        match a {
            Ast::Var(name) => {
                if let Some((k, lit)) = lit_at {
                    if *k == *v {
                        *v += 1;
                        *a = Ast::Lit((*lit).clone());
                        return;
                    }
                }
                *name = VAR_NAMES[*v % VAR_NAMES.len()].to_string();
                if *v >= VAR_NAMES.len() {
                    name.push_str(&(*v / VAR_NAMES.len()).to_string());
                }
                *v += 1;
            },
            Ast::Lit(_) | Ast::Unit => {},
            Ast::Bin(_, l, r) => {
                go(l, v, f, t, lit_at);
                go(r, v, f, t, lit_at);
            },
            Ast::Pre(_, e) | Ast::Partial(_, e) => go(e, v, f, t, lit_at),
            Ast::Asg(_, name, e) => {
                *name = TARGET_NAMES[*t % TARGET_NAMES.len()].to_string();
                if *t >= TARGET_NAMES.len() {
                    name.push_str(&(*t / TARGET_NAMES.len()).to_string());
                }
                *t += 1;
                go(e, v, f, t, lit_at);
            },
            Ast::Call(name, e) => {
                *name = FN_NAMES[*f % FN_NAMES.len()].to_string();
                if *f >= FN_NAMES.len() {
                    name.push_str(&(*f / FN_NAMES.len()).to_string());
                }
                *f += 1;
                go(e, v, f, t, lit_at);
            },
            Ast::Tuple(es) | Ast::Chain(es) => {
                for e in es {
                    go(e, v, f, t, lit_at);
                }
            },
        }
    }
    let (mut v, mut f, mut t) = (0, 0, 0);
    go(a, &mut v, &mut f, &mut t, &lit_at);
    v
}

pub fn count_var_leaves(a: &Ast) -> usize {
    match a {
        Ast::Var(_) => 1,
        Ast::Lit(_) | Ast::Unit => 0,
        Ast::Bin(_, l, r) => count_var_leaves(l) + count_var_leaves(r),
        Ast::Pre(_, e) | Ast::Asg(_, _, e) | Ast::Call(_, e) | Ast::Partial(_, e) => count_var_leaves(e),
        Ast::Tuple(es) | Ast::Chain(es) => es.iter().map(count_var_leaves).sum(),
    }
}

/// The literal kinds cycled through leaf positions.
pub fn literal_kinds() -> Vec<RV> {
    vec![RV::Int(7), RV::Float(2.5), RV::Str("s".into()), RV::Bool(true)]
}
