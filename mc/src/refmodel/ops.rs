//! Reference operator table (property C03), written from the property statement and the README's
//! operator section; i128 for integers, f64 for floats. No evalexpr code is called here.

use super::value::RV;

#[derive(Clone, Copy, Debug, PartialEq, Eq, Hash, PartialOrd, Ord)]
pub enum BinOp {
    Add,
    Sub,
    Mul,
    Div,
    Mod,
    Exp,
    Eq,
    Neq,
    Gt,
    Lt,
    Geq,
    Leq,
    And,
    Or,
}

#[derive(Clone, Copy, Debug, PartialEq, Eq, Hash, PartialOrd, Ord)]
pub enum UnOp {
    Neg,
    Not,
}

pub const BINOPS: [BinOp; 14] = [
    BinOp::Exp,
    BinOp::Mul,
    BinOp::Div,
    BinOp::Mod,
    BinOp::Add,
    BinOp::Sub,
    BinOp::Lt,
    BinOp::Gt,
    BinOp::Leq,
    BinOp::Geq,
    BinOp::Eq,
    BinOp::Neq,
    BinOp::And,
    BinOp::Or,
];

/// The eight operators that have an op-assign form.
pub const ASSIGN_BINOPS: [BinOp; 8] = [
    BinOp::Add,
    BinOp::Sub,
    BinOp::Mul,
    BinOp::Div,
    BinOp::Mod,
    BinOp::Exp,
    BinOp::And,
    BinOp::Or,
];

pub const UNOPS: [UnOp; 2] = [UnOp::Neg, UnOp::Not];

impl BinOp {
    pub fn sym(self) -> &'static str {
        match self {
            BinOp::Add => "+",
            BinOp::Sub => "-",
            BinOp::Mul => "*",
            BinOp::Div => "/",
            BinOp::Mod => "%",
            BinOp::Exp => "^",
            BinOp::Eq => "==",
            BinOp::Neq => "!=",
            BinOp::Gt => ">",
            BinOp::Lt => "<",
            BinOp::Geq => ">=",
            BinOp::Leq => "<=",
            BinOp::And => "&&",
            BinOp::Or => "||",
        }
    }
    /// README precedence table.
    pub fn prec(self) -> i32 {
        match self {
            BinOp::Exp => 120,
            BinOp::Mul | BinOp::Div | BinOp::Mod => 100,
            BinOp::Add | BinOp::Sub => 95,
            BinOp::Lt | BinOp::Gt | BinOp::Leq | BinOp::Geq | BinOp::Eq | BinOp::Neq => 80,
            BinOp::And => 75,
            BinOp::Or => 70,
        }
    }
}

impl UnOp {
    pub fn sym(self) -> &'static str {
        match self {
            UnOp::Neg => "-",
            UnOp::Not => "!",
        }
    }
}

#[derive(Clone, Debug, PartialEq, Eq, Hash, PartialOrd, Ord)]
pub enum ErrClass {
    /// integer overflow / division by zero
    Arith,
    /// unsupported operand type or combination
    Type,
}

#[derive(Clone, Debug)]
pub enum ROut {
    Val(RV),
    Err(ErrClass),
}

impl ROut {
    pub fn describe(&self) -> String {
        match self {
            ROut::Val(v) => format!("value {}", v.key()),
            ROut::Err(c) => format!("error class {:?}", c),
        }
    }
}

/// What the reference accepts: the primary outcome and, where the statement can be read two ways, an
/// alternative (each such case is listed in DESIGN.md under C03).
#[derive(Clone, Debug)]
pub struct Expect {
    pub primary: ROut,
    pub alt: Option<ROut>,
}

fn val(v: RV) -> Expect {
    Expect {
        primary: ROut::Val(v),
        alt: None,
    }
}
fn err(c: ErrClass) -> Expect {
    Expect {
        primary: ROut::Err(c),
        alt: None,
    }
}

fn as_f64(v: &RV) -> Option<f64> {
    match v {
        RV::Int(i) => Some(*i as f64),
        RV::Float(f) => Some(*f),
        _ => None,
    }
}

fn int_result(r: i128) -> Expect {
    if r < i64::MIN as i128 || r > i64::MAX as i128 {
        err(ErrClass::Arith)
    } else {
        val(RV::Int(r as i64))
    }
}

pub fn binop(op: BinOp, a: &RV, b: &RV) -> Expect {
    use BinOp::*;
    match op {
        Add | Sub | Mul | Div | Mod => {
            if let (Add, RV::Str(x), RV::Str(y)) = (op, a, b) {
                return val(RV::Str(format!("{}{}", x, y)));
            }
            match (a, b) {
                (RV::Int(x), RV::Int(y)) => {
                    let (x, y) = (*x as i128, *y as i128);
                    match op {
                        Add => int_result(x + y),
                        Sub => int_result(x - y),
                        Mul => int_result(x * y),
                        Div => {
                            if y == 0 {
                                err(ErrClass::Arith)
                            } else {
                                // i128 division truncates toward zero
                                int_result(x / y)
                            }
                        },
                        Mod => {
                            if y == 0 {
                                err(ErrClass::Arith)
                            } else if x == i64::MIN as i128 && y == -1 {
                                // mathematically 0; the hardware/`checked_rem` convention reports overflow
                                Expect {
                                    primary: ROut::Val(RV::Int(0)),
                                    alt: Some(ROut::Err(ErrClass::Arith)),
                                }
                            } else {
                                // i128 remainder takes the dividend's sign
                                int_result(x % y)
                            }
                        },
                        _ => unreachable!(),
                    }
                },
                _ => match (as_f64(a), as_f64(b)) {
                    (Some(x), Some(y)) => val(RV::Float(match op {
                        Add => x + y,
                        Sub => x - y,
                        Mul => x * y,
                        Div => x / y,
                        Mod => x % y,
                        _ => unreachable!(),
                    })),
                    _ => err(ErrClass::Type),
                },
            }
        },
        Exp => match (as_f64(a), as_f64(b)) {
            (Some(x), Some(y)) => val(RV::Float(x.powf(y))),
            _ => err(ErrClass::Type),
        },
        Eq | Neq => {
            let ieee = a.ieee_eq(b);
            let bits = a.bits_eq(b);
            let flip = |e: bool| if op == Eq { e } else { !e };
            Expect {
                primary: ROut::Val(RV::Bool(flip(ieee))),
                // "structural equality" can be read bitwise where IEEE and bitwise differ (NaN, signed zero)
                alt: if ieee != bits {
                    Some(ROut::Val(RV::Bool(flip(bits))))
                } else {
                    None
                },
            }
        },
        Gt | Lt | Geq | Leq => {
            let rel = |o: Option<std::cmp::Ordering>| -> bool {
                use std::cmp::Ordering::*;
                match (op, o) {
                    (_, None) => false,
                    (Gt, Some(o)) => o == Greater,
                    (Lt, Some(o)) => o == Less,
                    (Geq, Some(o)) => o != Less,
                    (Leq, Some(o)) => o != Greater,
                    _ => unreachable!(),
                }
            };
            match (a, b) {
                (RV::Str(x), RV::Str(y)) => val(RV::Bool(rel(Some(x.as_bytes().cmp(y.as_bytes()))))),
                (RV::Int(x), RV::Int(y)) => val(RV::Bool(rel(Some(x.cmp(y))))),
                _ => match (as_f64(a), as_f64(b)) {
                    (Some(x), Some(y)) => {
                        let converted = rel(x.partial_cmp(&y));
                        let exact = rel(exact_cmp(a, b));
                        Expect {
                            primary: ROut::Val(RV::Bool(converted)),
                            alt: if exact != converted {
                                Some(ROut::Val(RV::Bool(exact)))
                            } else {
                                None
                            },
                        }
                    },
                    _ => err(ErrClass::Type),
                },
            }
        },
        And | Or => match (a, b) {
            (RV::Bool(x), RV::Bool(y)) => val(RV::Bool(if op == And { *x && *y } else { *x || *y })),
            _ => err(ErrClass::Type),
        },
    }
}

/// Exact numeric comparison of an int/float pair (no rounding of the integer).
fn exact_cmp(a: &RV, b: &RV) -> Option<std::cmp::Ordering> {
    fn int_vs_float(i: i64, f: f64) -> Option<std::cmp::Ordering> {
        use std::cmp::Ordering::*;
        if f.is_nan() {
            return None;
        }
        if f >= 9223372036854775808.0 {
            return Some(Less);
        }
        if f < -9223372036854775808.0 {
            return Some(Greater);
        }
        let t = f.trunc();
        let ti = t as i64; // exact: |t| < 2^63 (or == -2^63)
        match i.cmp(&ti) {
            Equal => {
                let frac = f - t;
                if frac > 0.0 {
                    Some(Less)
                } else if frac < 0.0 {
                    Some(Greater)
                } else {
                    Some(Equal)
                }
            },
            o => Some(o),
        }
    }
    match (a, b) {
        (RV::Int(i), RV::Float(f)) => int_vs_float(*i, *f),
        (RV::Float(f), RV::Int(i)) => int_vs_float(*i, *f).map(|o| o.reverse()),
        (RV::Float(x), RV::Float(y)) => x.partial_cmp(y),
        (RV::Int(x), RV::Int(y)) => Some(x.cmp(y)),
        _ => None,
    }
}

pub fn unop(op: UnOp, a: &RV) -> Expect {
    match (op, a) {
        (UnOp::Neg, RV::Int(i)) => int_result(-(*i as i128)),
        (UnOp::Neg, RV::Float(f)) => val(RV::Float(-*f)),
        (UnOp::Not, RV::Bool(b)) => val(RV::Bool(!*b)),
        _ => err(ErrClass::Type),
    }
}

/// Classifies a real evalexpr error for comparison with the reference.
pub fn classify_error(e: &evalexpr::EvalexprError) -> Option<ErrClass> {
    use evalexpr::EvalexprError as E;
    match e {
        E::AdditionError { .. }
        | E::SubtractionError { .. }
        | E::NegationError { .. }
        | E::MultiplicationError { .. }
        | E::DivisionError { .. }
        | E::ModulationError { .. } => Some(ErrClass::Arith),
        E::ExpectedString { .. }
        | E::ExpectedInt { .. }
        | E::ExpectedFloat { .. }
        | E::ExpectedNumber { .. }
        | E::ExpectedNumberOrString { .. }
        | E::ExpectedBoolean { .. }
        | E::ExpectedTuple { .. }
        | E::ExpectedFixedLengthTuple { .. }
        | E::ExpectedRangedLengthTuple { .. }
        | E::ExpectedEmpty { .. }
        | E::TypeError { .. }
        | E::WrongTypeCombination { .. } => Some(ErrClass::Type),
        _ => None,
    }
}

/// Does the real outcome satisfy the reference expectation?
pub fn accepts(exp: &Expect, actual: &Result<super::value::EV, evalexpr::EvalexprError>) -> bool {
    let one = |o: &ROut| match (o, actual) {
        (ROut::Val(v), Ok(a)) => v.bits_eq(&RV::from_ev(a)),
        (ROut::Err(c), Err(e)) => classify_error(e).as_ref() == Some(c),
        _ => false,
    };
    one(&exp.primary) || exp.alt.as_ref().map(one).unwrap_or(false)
}
