//! Reference value type, independent of evalexpr's `Value`.

use evalexpr::{DefaultNumericTypes, Value};
use serde_json::{json, Value as J};

pub type EV = Value<DefaultNumericTypes>;

#[derive(Clone, Debug)]
pub enum RV {
    Str(String),
    Float(f64),
    Int(i64),
    Bool(bool),
    Tuple(Vec<RV>),
    Empty,
}

#[derive(Clone, Copy, Debug, PartialEq, Eq, Hash, PartialOrd, Ord)]
pub enum RType {
    Str,
    Float,
    Int,
    Bool,
    Tuple,
    Empty,
}

impl RV {
    pub fn rtype(&self) -> RType {
        match self {
            RV::Str(_) => RType::Str,
            RV::Float(_) => RType::Float,
            RV::Int(_) => RType::Int,
            RV::Bool(_) => RType::Bool,
            RV::Tuple(_) => RType::Tuple,
            RV::Empty => RType::Empty,
        }
    }

    pub fn to_ev(&self) -> EV {
        match self {
            RV::Str(s) => Value::String(s.clone()),
            RV::Float(f) => Value::Float(*f),
            RV::Int(i) => Value::Int(*i),
            RV::Bool(b) => Value::Boolean(*b),
            RV::Tuple(t) => Value::Tuple(t.iter().map(|v| v.to_ev()).collect()),
            RV::Empty => Value::Empty,
        }
    }

    pub fn from_ev(v: &EV) -> RV {
        match v {
            Value::String(s) => RV::Str(s.clone()),
            Value::Float(f) => RV::Float(*f),
            Value::Int(i) => RV::Int(*i),
            Value::Boolean(b) => RV::Bool(*b),
            Value::Tuple(t) => RV::Tuple(t.iter().map(RV::from_ev).collect()),
            Value::Empty => RV::Empty,
        }
    }

    /// Equality used by every oracle: same shape, floats by bit pattern with all NaNs identified.
    pub fn bits_eq(&self, o: &RV) -> bool {
        match (self, o) {
            (RV::Str(a), RV::Str(b)) => a == b,
            (RV::Float(a), RV::Float(b)) => (a.is_nan() && b.is_nan()) || a.to_bits() == b.to_bits(),
            (RV::Int(a), RV::Int(b)) => a == b,
            (RV::Bool(a), RV::Bool(b)) => a == b,
            (RV::Tuple(a), RV::Tuple(b)) => a.len() == b.len() && a.iter().zip(b).all(|(x, y)| x.bits_eq(y)),
            (RV::Empty, RV::Empty) => true,
            _ => false,
        }
    }

    /// The language's `==`: same variant, IEEE `==` on floats, element-wise on tuples.
    pub fn ieee_eq(&self, o: &RV) -> bool {
        match (self, o) {
            (RV::Float(a), RV::Float(b)) => a == b,
            (RV::Tuple(a), RV::Tuple(b)) => a.len() == b.len() && a.iter().zip(b).all(|(x, y)| x.ieee_eq(y)),
            (RV::Float(_), _) | (_, RV::Float(_)) | (RV::Tuple(_), _) | (_, RV::Tuple(_)) => false,
            _ => self.bits_eq(o),
        }
    }

    /// Canonical text key (floats by bits, NaN canonical); used for hashing and for display in reports.
    pub fn key(&self) -> String {
        match self {
            RV::Str(s) => format!("S{:?}", s),
            RV::Float(f) => {
                if f.is_nan() {
                    "Fnan".into()
                } else {
                    format!("F{:?}#{:016x}", f, f.to_bits())
                }
            },
            RV::Int(i) => format!("I{}", i),
            RV::Bool(b) => format!("B{}", b),
            RV::Tuple(t) => format!("T[{}]", t.iter().map(|v| v.key()).collect::<Vec<_>>().join(",")),
            RV::Empty => "E".into(),
        }
    }

    pub fn to_json(&self) -> J {
        match self {
            RV::Str(s) => json!({"String": s}),
            RV::Float(f) => json!({"Float": format!("{:?}", f), "bits": format!("{:016x}", f.to_bits())}),
            RV::Int(i) => json!({"Int": i}),
            RV::Bool(b) => json!({"Boolean": b}),
            RV::Tuple(t) => json!({"Tuple": t.iter().map(|v| v.to_json()).collect::<Vec<_>>()}),
            RV::Empty => json!("Empty"),
        }
    }

    pub fn from_json(j: &J) -> Option<RV> {
        if j.as_str() == Some("Empty") {
            return Some(RV::Empty);
        }
        let o = j.as_object()?;
        if let Some(s) = o.get("String") {
            return Some(RV::Str(s.as_str()?.to_string()));
        }
        if let Some(b) = o.get("bits") {
            return Some(RV::Float(f64::from_bits(u64::from_str_radix(b.as_str()?, 16).ok()?)));
        }
        if let Some(i) = o.get("Int") {
            return Some(RV::Int(i.as_i64()?));
        }
        if let Some(b) = o.get("Boolean") {
            return Some(RV::Bool(b.as_bool()?));
        }
        if let Some(t) = o.get("Tuple") {
            let mut v = Vec::new();
            for e in t.as_array()? {
                v.push(RV::from_json(e)?);
            }
            return Some(RV::Tuple(v));
        }
        None
    }

    /// Rust source constructing the evalexpr value (for the ready-to-paste tests).
    pub fn rust_src(&self) -> String {
        match self {
            RV::Str(s) => format!("Value::String({:?}.to_string())", s),
            RV::Float(f) => format!("Value::Float(f64::from_bits(0x{:016x}))", f.to_bits()),
            RV::Int(i) => {
                if *i == i64::MIN {
                    "Value::Int(i64::MIN)".into()
                } else {
                    format!("Value::Int({})", i)
                }
            },
            RV::Bool(b) => format!("Value::Boolean({})", b),
            RV::Tuple(t) => format!(
                "Value::Tuple(vec![{}])",
                t.iter().map(|v| v.rust_src()).collect::<Vec<_>>().join(", ")
            ),
            RV::Empty => "Value::Empty".into(),
        }
    }

    /// A literal rendering in the expression language, if one exists: non-negative finite numbers,
    /// strings, booleans, `()`, tuples of at least two expressible elements.
    pub fn literal(&self) -> Option<String> {
        match self {
            RV::Str(s) => Some(quote(s)),
            RV::Float(f) => {
                if f.is_finite() && f.is_sign_positive() {
                    Some(format!("{:?}", f))
                } else {
                    None
                }
            },
            RV::Int(i) => {
                if *i >= 0 {
                    Some(i.to_string())
                } else {
                    None
                }
            },
            RV::Bool(b) => Some(b.to_string()),
            RV::Tuple(t) => {
                if t.len() < 2 {
                    return None;
                }
                let mut parts = Vec::new();
                for e in t {
                    parts.push(e.literal()?);
                }
                Some(format!("({})", parts.join(", ")))
            },
            RV::Empty => Some("()".into()),
        }
    }
}

/// The reference escaper: `\` and `"` are backslash-escaped, everything else is verbatim.
pub fn quote(s: &str) -> String {
    let mut out = String::with_capacity(s.len() + 2);
    out.push('"');
    for c in s.chars() {
        if c == '"' || c == '\\' {
            out.push('\\');
        }
        out.push(c);
    }
    out.push('"');
    out
}

/// The edge-value pool shared by C01, C03, C10 (design section 4, C03).
pub fn pool() -> Vec<RV> {
    let mut v = Vec::new();
    let p2 = |k: u32| 1i64 << k;
    for i in [
        0i64,
        1,
        -1,
        2,
        -2,
        3,
        7,
        10,
        63,
        64,
        65,
        p2(31),
        -p2(31),
        p2(32),
        -p2(32),
        p2(53) - 1,
        p2(53),
        p2(53) + 1,
        -(p2(53) + 1),
        p2(62),
        p2(62) + 1,
        i64::MAX - 1,
        i64::MAX,
        i64::MIN,
        i64::MIN + 1,
    ] {
        v.push(RV::Int(i));
    }
    for f in [
        0.0f64,
        -0.0,
        1.0,
        -1.0,
        0.5,
        -0.5,
        1.5,
        2.0,
        3.0,
        9007199254740992.0,
        -9007199254740992.0,
        9223372036854775808.0,
        -9223372036854775808.0,
        1e19,
        -1e19,
        2e19,
        f64::MAX,
        f64::MIN_POSITIVE,
        5e-324,
        f64::INFINITY,
        f64::NEG_INFINITY,
        f64::NAN,
        0.1,
        1e-7,
        63.0,
        64.0,
    ] {
        v.push(RV::Float(f));
    }
    for s in ["", "a", "b", "ab", "Ab", "äb", "日本", "😀", " ", " a b ", "ß", "\"\\"] {
        v.push(RV::Str(s.to_string()));
    }
    // strings that spell a value of another type: still strings (round 11)
    for s in ["2", "1.5", " 4 ", "-1", "0", "1e3", "inf", "NaN", "0x10", "true", "()", "(1, 2)"] {
        v.push(RV::Str(s.to_string()));
    }
    v.push(RV::Bool(true));
    v.push(RV::Bool(false));
    v.push(RV::Empty);
    v.push(RV::Tuple(vec![]));
    v.push(RV::Tuple(vec![RV::Int(1)]));
    v.push(RV::Tuple(vec![RV::Int(1), RV::Int(2)]));
    v.push(RV::Tuple(vec![RV::Int(1), RV::Float(1.0)]));
    v.push(RV::Tuple(vec![RV::Tuple(vec![RV::Int(1)]), RV::Str("a".into())]));
    v.push(RV::Tuple(vec![RV::Float(f64::NAN)]));
    v.push(RV::Tuple(vec![RV::Str("a".into()), RV::Bool(true), RV::Empty]));
    v.push(RV::Tuple(vec![RV::Empty, RV::Empty]));
    v.push(RV::Tuple(vec![RV::Int(1), RV::Tuple(vec![RV::Int(2)])]));
    v.push(RV::Tuple(vec![RV::Str("a".into()), RV::Int(2), RV::Float(1.5)]));
    v.push(RV::Tuple(vec![RV::Float(2.0)]));
    v.push(RV::Tuple(vec![RV::Float(1.0), RV::Str("1".into()), RV::Bool(true)]));
    v
}

/// A smaller pool (one to four values per type, incl. the extremes) for arity-3 matrices.
pub fn small_pool() -> Vec<RV> {
    let mut v = Vec::new();
    for i in [0i64, 1, -1, 2, 3, 64, i64::MAX, i64::MIN] {
        v.push(RV::Int(i));
    }
    for f in [0.0f64, 1.5, -1.0, 1e19, f64::INFINITY, f64::NAN] {
        v.push(RV::Float(f));
    }
    for s in ["", "a", "äb", "Ab "] {
        v.push(RV::Str(s.to_string()));
    }
    v.push(RV::Bool(true));
    v.push(RV::Bool(false));
    v.push(RV::Empty);
    v.push(RV::Tuple(vec![]));
    v.push(RV::Tuple(vec![RV::Int(1), RV::Int(2)]));
    v.push(RV::Tuple(vec![RV::Str("a".into()), RV::Float(1.5)]));
    v
}

/// The thorough-tier pool: the edge pool plus every power of two with both neighbours, powers of ten,
/// more float boundaries and more strings.
pub fn big_pool() -> Vec<RV> {
    let mut v = pool();
    let mut push = |x: RV, v: &mut Vec<RV>| {
        if !v.iter().any(|y| y.bits_eq(&x)) {
            v.push(x);
        }
    };
    for k in 0..63u32 {
        let p = 1i64 << k;
        for d in [-1i64, 0, 1] {
            push(RV::Int(p + d), &mut v);
            push(RV::Int(-(p + d)), &mut v);
        }
    }
    let mut t = 1i64;
    for _ in 0..18 {
        t *= 10;
        push(RV::Int(t), &mut v);
        push(RV::Int(-t + 1), &mut v);
    }
    for f in [
        4503599627370496.0f64,
        4503599627370495.5,
        9223372036854774784.0,
        -9223372036854777856.0,
        1e15,
        1e16,
        1e-300,
        2.2250738585072011e-308,
        0.30000000000000004,
        123456.789,
        -123456.789,
        1e308,
        -1e308,
        7.0,
        -7.0,
        10.0,
        0.25,
    ] {
        push(RV::Float(f), &mut v);
    }
    for s in ["A", "a ", "aa", "b", "Z", "é", "e\u{301}", "\n", "0", "1", "10", "9", "true", "()"] {
        push(RV::Str(s.to_string()), &mut v);
    }
    push(RV::Tuple(vec![RV::Int(2), RV::Int(1)]), &mut v);
    push(RV::Tuple(vec![RV::Float(f64::NAN), RV::Int(1)]), &mut v);
    push(RV::Tuple(vec![RV::Float(0.0)]), &mut v);
    push(RV::Tuple(vec![RV::Float(-0.0)]), &mut v);
    push(RV::Tuple(vec![RV::Tuple(vec![]), RV::Tuple(vec![])]), &mut v);
    v
}
