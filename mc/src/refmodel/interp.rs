//! Reference interpreter over the reference AST: strict left-to-right evaluation, first error
//! aborts, effects before the error stay; type-safe variable store; ordered user-function call log.

use super::ast::Ast;
use super::builtins::{self, BExpect, Unit, BUILTIN_NAMES};
use super::ops::{self, ErrClass, ROut};
use super::value::{RType, RV};
use std::collections::BTreeMap;

#[derive(Clone, Debug, PartialEq)]
pub enum RErr {
    VarNotFound(String),
    FnNotFound(String),
    NotMutable,
    /// operator error class (arithmetic / type)
    Class(ErrClass),
    /// type-safe context refused the assignment: expected type of the variable, offered value
    ExpectedType(RType, String),
    /// a user function failed with this message
    Custom(String),
    /// a builtin reported an error (any error)
    Builtin,
    /// an operator was applied to the wrong number of operands
    Arity,
}

/// What a reference user function does.
#[derive(Clone, Debug)]
pub enum RFn {
    /// logs (name, argument), returns the argument
    Identity,
    /// logs, returns a fixed value
    Const(RV),
    /// logs, then fails with CustomMessage(msg)
    Fail(String),
    /// logs, returns a tuple ("tag", argument) so that the callee is identifiable in the result
    Tagged(String),
}

#[derive(Clone, Copy, Debug, PartialEq, Eq)]
pub enum Mode {
    Mutable,
    /// evaluation through the shared-context entry points
    Immutable,
    /// mutable entry points on a context whose `set_value` is the trait default
    NoStorage,
}

#[derive(Clone, Debug)]
pub struct RCtx {
    pub vars: BTreeMap<String, RV>,
    pub funcs: BTreeMap<String, RFn>,
    pub builtins_enabled: bool,
    pub log: Vec<(String, RV)>,
    pub unit: Unit,
    /// set when the reference met a case it accepts both ways or does not claim; the caller then
    /// does not compare this run
    pub unclaimed: bool,
    /// set when an immutable-mode op-assign would also have failed in its read or operator
    /// (either error is accepted)
    pub opassign_alt: Option<RErr>,
    /// environment-answer script (C08): deviation codes by interaction index, and the recorded
    /// sequence of interactions with the context
    pub script: Option<Script>,
}

/// A script of environment answers: interaction number -> deviation code (absent = default answer).
///   get_value:      1 = unbound, 2 = a value of another type
///   call_function:  1 = fails with CustomMessage("env"), 2 = function not found, 3 = returns Int(42)
///   set_value:      1 = fails with CustomMessage("ro"), 2 = reports success without storing
#[derive(Clone, Debug, Default)]
pub struct Script {
    pub devs: BTreeMap<usize, u8>,
    pub counter: usize,
    pub trace: Vec<String>,
}

impl Script {
    pub fn next_dev(&mut self, what: String) -> u8 {
        let d = self.devs.get(&self.counter).copied().unwrap_or(0);
        self.counter += 1;
        self.trace.push(if d == 0 { what } else { format!("{} [deviation {}]", what, d) });
        d
    }
}

/// The value a deviating get_value returns instead of `default`.
pub fn other_type_value(default: Option<&RV>) -> RV {
    match default {
        Some(RV::Bool(_)) => RV::Int(7),
        _ => RV::Bool(true),
    }
}

fn assigns_to(a: &Ast, x: &str) -> bool {
    match a {
        Ast::Var(_) | Ast::Lit(_) | Ast::Unit => false,
        Ast::Bin(_, l, r) => assigns_to(l, x) || assigns_to(r, x),
        Ast::Pre(_, e) | Ast::Call(_, e) | Ast::Partial(_, e) => assigns_to(e, x),
        Ast::Asg(_, y, e) => y == x || assigns_to(e, x),
        Ast::Tuple(es) | Ast::Chain(es) => es.iter().any(|e| assigns_to(e, x)),
    }
}

impl RCtx {
    pub fn new() -> RCtx {
        RCtx {
            vars: BTreeMap::new(),
            funcs: BTreeMap::new(),
            builtins_enabled: true,
            log: Vec::new(),
            unit: Unit::Bytes,
            unclaimed: false,
            opassign_alt: None,
            script: None,
        }
    }

    /// Type-safe assignment of the HashMapContext (C04).
    pub fn set(&mut self, name: &str, v: RV) -> Result<(), RErr> {
        if let Some(cur) = self.vars.get(name) {
            if cur.rtype() != v.rtype() {
                return Err(RErr::ExpectedType(cur.rtype(), v.key()));
            }
        }
        self.vars.insert(name.to_string(), v);
        Ok(())
    }

    /// Variable lookup as the evaluator performs it through the context.
    fn env_get(&mut self, name: &str) -> Option<RV> {
        let default = self.vars.get(name).cloned();
        if let Some(s) = &mut self.script {
            match s.next_dev(format!("get_value({})", name)) {
                1 => return None,
                2 => return Some(other_type_value(default.as_ref())),
                _ => {},
            }
        }
        default
    }

    /// Assignment as the evaluator performs it through the context.
    fn env_set(&mut self, name: &str, v: RV) -> Result<(), RErr> {
        if let Some(s) = &mut self.script {
            match s.next_dev(format!("set_value({}, {})", name, v.key())) {
                1 => return Err(RErr::Custom("ro".into())),
                2 => return Ok(()),
                _ => {},
            }
        }
        self.set(name, v)
    }

    fn out(&mut self, e: ops::Expect) -> Result<RV, RErr> {
        if e.alt.is_some() {
            self.unclaimed = true;
        }
        match e.primary {
            ROut::Val(v) => Ok(v),
            ROut::Err(c) => Err(RErr::Class(c)),
        }
    }

    pub fn eval(&mut self, a: &Ast, mode: Mode) -> Result<RV, RErr> {
        match a {
            Ast::Var(x) => self.env_get(x).ok_or_else(|| RErr::VarNotFound(x.clone())),
            Ast::Lit(v) => Ok(v.clone()),
            Ast::Unit => Ok(RV::Empty),
            Ast::Bin(op, l, r) => {
                let lv = self.eval(l, mode)?;
                let rv = self.eval(r, mode)?;
                let e = ops::binop(*op, &lv, &rv);
                self.out(e)
            },
            Ast::Pre(op, e) => {
                let v = self.eval(e, mode)?;
                let e = ops::unop(*op, &v);
                self.out(e)
            },
            Ast::Asg(None, x, e) => {
                let v = self.eval(e, mode)?;
                match mode {
                    Mode::Mutable => {
                        self.env_set(x, v)?;
                        Ok(RV::Empty)
                    },
                    Mode::Immutable | Mode::NoStorage => Err(RErr::NotMutable),
                }
            },
            Ast::Asg(Some(op), x, e) => {
                let v = self.eval(e, mode)?;
                if assigns_to(e, x) {
                    // `x op= e` as `x = x op e` reads x first; the evaluator reads it after e: accepted both ways
                    self.unclaimed = true;
                }
                if mode == Mode::Immutable {
                    // the shared-context form fails at the operator without consulting the context
                    let probe = match self.vars.get(x).cloned() {
                        None => Err(RErr::VarNotFound(x.clone())),
                        Some(cur) => {
                            let ex = ops::binop(*op, &cur, &v);
                            self.out(ex)
                        },
                    };
                    if let Err(alt) = probe {
                        self.opassign_alt = Some(alt);
                    }
                    return Err(RErr::NotMutable);
                }
                // the variable is read after the right-hand side was evaluated
                let computed: Result<RV, RErr> = match self.env_get(x) {
                    None => Err(RErr::VarNotFound(x.clone())),
                    Some(cur) => {
                        let ex = ops::binop(*op, &cur, &v);
                        self.out(ex)
                    },
                };
                match mode {
                    Mode::Immutable => unreachable!(),
                    Mode::NoStorage => {
                        computed?;
                        Err(RErr::NotMutable)
                    },
                    Mode::Mutable => {
                        let r = computed?;
                        self.env_set(x, r)?;
                        Ok(RV::Empty)
                    },
                }
            },
            Ast::Call(f, e) => {
                let arg = self.eval(e, mode)?;
                let mut hidden = false;
                if let Some(s) = &mut self.script {
                    match s.next_dev(format!("call_function({}, {})", f, arg.key())) {
                        1 => return Err(RErr::Custom("env".into())),
                        2 => hidden = true,
                        3 => return Ok(RV::Int(42)),
                        _ => {},
                    }
                }
                let func = if hidden { None } else { self.funcs.get(f).cloned() };
                if let Some(func) = func {
                    self.log.push((f.clone(), arg.clone()));
                    return match func {
                        RFn::Identity => Ok(arg),
                        RFn::Const(v) => Ok(v),
                        RFn::Fail(m) => Err(RErr::Custom(m)),
                        RFn::Tagged(t) => Ok(RV::Tuple(vec![RV::Str(t), arg])),
                    };
                }
                if self.builtins_enabled && BUILTIN_NAMES.contains(&f.as_str()) {
                    return match builtins::reference(f, &arg, self.unit) {
                        BExpect::Val(v) => Ok(v),
                        BExpect::AnyOf(vs) => {
                            if vs.len() != 1 {
                                self.unclaimed = true;
                            }
                            vs.into_iter().next().ok_or(RErr::Builtin)
                        },
                        BExpect::Error => Err(RErr::Builtin),
                        BExpect::Unclaimed => {
                            self.unclaimed = true;
                            Err(RErr::Builtin)
                        },
                    };
                }
                Err(RErr::FnNotFound(f.clone()))
            },
            Ast::Tuple(es) => {
                let mut out = Vec::with_capacity(es.len());
                for e in es {
                    out.push(self.eval(e, mode)?);
                }
                Ok(RV::Tuple(out))
            },
            Ast::Chain(es) => {
                let mut last = RV::Empty;
                for e in es {
                    last = self.eval(e, mode)?;
                }
                Ok(last)
            },
            Ast::Partial(_, e) => {
                // the present operand is evaluated (its effects and errors come first), then the operator
                // fails on its operand count
                self.eval(e, mode)?;
                Err(RErr::Arity)
            },
        }
    }
}

/// Does the real error correspond to the reference error?
pub fn err_matches(r: &RErr, e: &evalexpr::EvalexprError) -> bool {
    use evalexpr::EvalexprError as E;
    match (r, e) {
        (RErr::VarNotFound(x), E::VariableIdentifierNotFound(y)) => x == y,
        (RErr::FnNotFound(x), E::FunctionIdentifierNotFound(y)) => x == y,
        (RErr::NotMutable, E::ContextNotMutable) => true,
        (RErr::Class(c), e) => ops::classify_error(e).as_ref() == Some(c),
        (RErr::ExpectedType(t, vkey), e) => {
            let (et, actual) = match e {
                E::ExpectedString { actual } => (RType::Str, actual),
                E::ExpectedInt { actual } => (RType::Int, actual),
                E::ExpectedFloat { actual } => (RType::Float, actual),
                E::ExpectedBoolean { actual } => (RType::Bool, actual),
                E::ExpectedTuple { actual } => (RType::Tuple, actual),
                E::ExpectedEmpty { actual } => (RType::Empty, actual),
                _ => return false,
            };
            et == *t && RV::from_ev(actual).key() == *vkey
        },
        (RErr::Custom(m), E::CustomMessage(n)) => m == n,
        (RErr::Arity, E::WrongOperatorArgumentAmount { .. }) => true,
        (RErr::Builtin, E::FunctionIdentifierNotFound(_)) => false,
        (RErr::Builtin, _) => true,
        _ => false,
    }
}

pub fn result_matches(r: &Result<RV, RErr>, e: &Result<super::value::EV, evalexpr::EvalexprError>) -> bool {
    match (r, e) {
        (Ok(v), Ok(w)) => v.bits_eq(&RV::from_ev(w)),
        (Err(x), Err(y)) => err_matches(x, y),
        _ => false,
    }
}

pub fn describe(r: &Result<RV, RErr>) -> String {
    match r {
        Ok(v) => format!("Ok({})", v.key()),
        Err(e) => format!("Err({:?})", e),
    }
}
