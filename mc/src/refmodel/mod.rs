//! Reference models: boring, independent of the code under test.
pub mod ast;
pub mod builtins;
pub mod interp;
pub mod lexer;
pub mod ops;
pub mod recogniser;
pub mod value;
