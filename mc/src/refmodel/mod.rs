//! Reference models: boring, independent of the code under test.
pub mod ops;
pub mod value;
