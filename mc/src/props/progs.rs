//! Program enumeration shared by C08 and C11: all ASTs with up to n operator nodes over a small
//! effectful alphabet (assignments, recording calls, failing sub-expressions).

use crate::refmodel::ast::Ast;
use crate::refmodel::ops::{BinOp, UnOp};
use crate::refmodel::value::RV;

#[derive(Clone, Copy, Debug, PartialEq, Eq)]
pub enum Un {
    AssignX,
    AssignY,
    AddAssignX,
    AndAssignX,
    CallR,
    CallS,
    CallFail,
    Neg,
    /// `e +` with the right operand missing
    PartialAdd,
}

#[derive(Clone, Copy, Debug, PartialEq, Eq)]
pub enum Bi {
    Add,
    And,
    Or,
    Div,
    Tuple,
    Chain,
    /// an ordering comparison (its operands are checked after both were evaluated)
    Lt,
    /// structural equality (no type check at all)
    Eq,
}

pub const UNS: [Un; 9] = [
    Un::AssignX,
    Un::AssignY,
    Un::AddAssignX,
    Un::AndAssignX,
    Un::CallR,
    Un::CallS,
    Un::CallFail,
    Un::Neg,
    Un::PartialAdd,
];
pub const BIS: [Bi; 8] = [Bi::Add, Bi::And, Bi::Or, Bi::Div, Bi::Tuple, Bi::Chain, Bi::Lt, Bi::Eq];

pub fn leaves() -> Vec<Ast> {
    let int = |i| Ast::Lit(RV::Int(i));
    vec![
        int(1),
        int(0),
        Ast::Lit(RV::Bool(true)),
        Ast::Lit(RV::Bool(false)),
        Ast::Var("x".into()),
        Ast::Var("u".into()),
        // the empty value `()`
        Ast::Unit,
        // a float and a string with leading and trailing whitespace (typed views must hand them out unchanged)
        Ast::Lit(RV::Float(2.5)),
        Ast::Lit(RV::Str(" s ".into())),
        // failing atoms: arithmetic and type error
        Ast::Bin(BinOp::Div, Box::new(int(1)), Box::new(int(0))),
        Ast::Bin(BinOp::Add, Box::new(Ast::Lit(RV::Bool(true))), Box::new(int(1))),
    ]
}

pub fn mk_un(u: Un, e: Ast) -> Ast {
    let b = Box::new(e);
    match u {
        Un::AssignX => Ast::Asg(None, "x".into(), b),
        Un::AssignY => Ast::Asg(None, "y".into(), b),
        Un::AddAssignX => Ast::Asg(Some(BinOp::Add), "x".into(), b),
        Un::AndAssignX => Ast::Asg(Some(BinOp::And), "x".into(), b),
        Un::CallR => Ast::Call("r".into(), b),
        Un::CallS => Ast::Call("s".into(), b),
        Un::CallFail => Ast::Call("typeof".into(), b),
        Un::Neg => Ast::Pre(UnOp::Neg, b),
        Un::PartialAdd => Ast::Partial(BinOp::Add, b),
    }
}

pub fn mk_bi(b: Bi, l: Ast, r: Ast) -> Ast {
    match b {
        Bi::Add => Ast::Bin(BinOp::Add, Box::new(l), Box::new(r)),
        Bi::And => Ast::Bin(BinOp::And, Box::new(l), Box::new(r)),
        Bi::Or => Ast::Bin(BinOp::Or, Box::new(l), Box::new(r)),
        Bi::Div => Ast::Bin(BinOp::Div, Box::new(l), Box::new(r)),
        Bi::Tuple => Ast::Tuple(vec![l, r]),
        Bi::Chain => Ast::Chain(vec![l, r]),
        Bi::Lt => Ast::Bin(BinOp::Lt, Box::new(l), Box::new(r)),
        Bi::Eq => Ast::Bin(BinOp::Eq, Box::new(l), Box::new(r)),
    }
}

/// counts[n] = number of programs with exactly n operator nodes (failing atoms count as leaves).
pub fn counts(max: usize) -> Vec<u64> {
    let mut c = vec![0u64; max + 1];
    c[0] = leaves().len() as u64;
    for n in 1..=max {
        let mut t = UNS.len() as u64 * c[n - 1];
        let mut pairs = 0;
        for i in 0..n {
            pairs += c[i] * c[n - 1 - i];
        }
        t += BIS.len() as u64 * pairs;
        c[n] = t;
    }
    c
}

pub fn unrank(counts: &[u64], lv: &[Ast], n: usize, mut idx: u64) -> Ast {
    if n == 0 {
        return lv[idx as usize].clone();
    }
    let sub = counts[n - 1];
    for u in UNS {
        if idx < sub {
            return mk_un(u, unrank(counts, lv, n - 1, idx));
        }
        idx -= sub;
    }
    let mut pairs = 0u64;
    for i in 0..n {
        pairs += counts[i] * counts[n - 1 - i];
    }
    for b in BIS {
        if idx < pairs {
            let mut k = idx;
            for i in 0..n {
                let block = counts[i] * counts[n - 1 - i];
                if k < block {
                    let l = unrank(counts, lv, i, k / counts[n - 1 - i]);
                    let r = unrank(counts, lv, n - 1 - i, k % counts[n - 1 - i]);
                    return mk_bi(b, l, r);
                }
                k -= block;
            }
            unreachable!();
        }
        idx -= pairs;
    }
    unreachable!("rank out of range")
}

/// Does the program contain a comparison operator (`<`, `==`) or one of the two literal leaves added later
/// (a float, a padded string)? The quick tiers enumerate the largest program size without them.
pub fn has_comparison(a: &Ast) -> bool {
    match a {
        Ast::Lit(RV::Float(_)) | Ast::Lit(RV::Str(_)) => true,
        Ast::Var(_) | Ast::Lit(_) | Ast::Unit => false,
        Ast::Bin(op, l, r) => matches!(op, BinOp::Lt | BinOp::Eq) || has_comparison(l) || has_comparison(r),
        Ast::Pre(_, e) | Ast::Call(_, e) | Ast::Partial(_, e) | Ast::Asg(_, _, e) => has_comparison(e),
        Ast::Tuple(es) | Ast::Chain(es) => es.iter().any(has_comparison),
    }
}

pub fn has_assignment(a: &Ast) -> bool {
    match a {
        Ast::Var(_) | Ast::Lit(_) | Ast::Unit => false,
        Ast::Bin(_, l, r) => has_assignment(l) || has_assignment(r),
        Ast::Pre(_, e) | Ast::Call(_, e) | Ast::Partial(_, e) => has_assignment(e),
        Ast::Asg(..) => true,
        Ast::Tuple(es) | Ast::Chain(es) => es.iter().any(has_assignment),
    }
}

/// Initial variable bindings the programs are run in.
pub fn initial_contexts() -> Vec<Vec<(&'static str, RV)>> {
    vec![vec![], vec![("x", RV::Int(1))], vec![("x", RV::Bool(true))], vec![("x", RV::Tuple(vec![]))]]
}
