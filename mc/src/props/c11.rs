//! C11 — read-only evaluation equals mutable evaluation and never mutates.

use super::c08::{real_context, ref_context, source_of};
use super::common::*;
use super::progs;
use crate::engine::*;
use crate::refmodel::ast::Ast;
use crate::refmodel::interp::*;
use crate::refmodel::value::{RV, EV};
use evalexpr::{
    build_operator_tree, Context, ContextWithMutableVariables, DefaultNumericTypes, EmptyContext,
    EmptyContextWithBuiltinFunctions,
};
use serde_json::{json, Value as J};
use std::sync::{Arc, Mutex};

const ID: &str = "C11";

/// A context with variables and functions but without variable storage through the mutable trait:
/// `set_value` is the trait's default.
pub struct NoStore {
    pub inner: HCtx,
}
impl Context for NoStore {
    type NumericTypes = DefaultNumericTypes;
    fn get_value(&self, identifier: &str) -> Option<&EV> {
        self.inner.get_value(identifier)
    }
    fn call_function(&self, identifier: &str, argument: &EV) -> Result<EV, EErr> {
        self.inner.call_function(identifier, argument)
    }
    fn are_builtin_functions_disabled(&self) -> bool {
        self.inner.are_builtin_functions_disabled()
    }
    fn set_builtin_functions_disabled(&mut self, disabled: bool) -> Result<(), EErr> {
        self.inner.set_builtin_functions_disabled(disabled)
    }
}
impl ContextWithMutableVariables for NoStore {}

fn log_keys(l: &[(String, RV)]) -> Vec<String> {
    l.iter().map(|(n, v)| format!("{}({})", n, v.key())).collect()
}

fn check(ast: &Ast, vars: &[(&'static str, RV)], ci: usize, st: &mut Stats) {
    let src = source_of(ast);
    let tree = match guarded(|| build_operator_tree::<DefaultNumericTypes>(&src)) {
        Ok(Ok(t)) => t,
        _ => {
            st.count("skipped/does-not-precompile");
            return;
        },
    };
    let has_asg = progs::has_assignment(ast);
    let mk = |kind: &str, expected: String, actual: String| Violation {
        property: ID,
        kind: kind.into(),
        input: json!({"source": src, "context": ci}),
        expected,
        actual,
        test: test_wrap(
            "c11_replay",
            &format!(
                "    // context {}: variables {:?}; functions r, s (identity, recording), typeof (user function that fails)\n    // compare eval_with_context({:?}, &c) with eval_with_context_mut({:?}, &mut c.clone())\n",
                ci,
                vars.iter().map(|(n, v)| format!("{} = {}", n, v.key())).collect::<Vec<_>>(),
                src,
                src
            ),
        ),
    };

    // (1) the shared-context form against the reference in immutable mode
    let mut rc = ref_context(vars);
    let rref = rc.eval(ast, Mode::Immutable);
    let log: Arc<Mutex<Vec<(String, RV)>>> = Arc::new(Mutex::new(Vec::new()));
    let c = real_context(vars, &log);
    let before = observe_vars(&c);
    let imm = match guarded(|| tree.eval_with_context(&c)) {
        Ok(r) => r,
        Err(p) => {
            st.violation(mk("panic", "Ok or Err".into(), format!("panic at {}: {}", p.location, p.message)));
            return;
        },
    };
    let imm_str = match guarded(|| evalexpr::eval_with_context(&src, &c)) {
        Ok(r) => r,
        Err(p) => {
            st.violation(mk("panic", "Ok or Err".into(), format!("panic at {}: {}", p.location, p.message)));
            return;
        },
    };
    st.evaluations += 2;
    let imm_log = log_keys(&log.lock().unwrap());
    if observe_vars(&c) != before {
        st.violation(mk("shared-context-mutated", format!("variables stay {:?}", before), format!("{:?}", observe_vars(&c))));
        return;
    }
    if res_key(&imm) != res_key(&imm_str) {
        st.violation(mk("tree-vs-string", res_key(&imm), res_key(&imm_str)));
        return;
    }
    if !rc.unclaimed {
        let ok = result_matches(&rref, &imm)
            || match (&rc.opassign_alt, &imm) {
                (Some(alt), Err(e)) => err_matches(alt, e),
                _ => false,
            };
        // the string form ran the program a second time: its log is the first log twice
        let ref_log = log_keys(&rc.log);
        let mut twice = ref_log.clone();
        twice.extend(ref_log.clone());
        if !ok || imm_log != twice {
            st.violation(mk(
                "immutable-result",
                format!("{} with call log {:?} (per run)", describe(&rref), ref_log),
                format!("{} with call log {:?} (two runs)", res_dbg(&imm), imm_log),
            ));
            return;
        }
        st.count(match &rref {
            Err(RErr::NotMutable) => "immutable/context-not-mutable",
            Err(_) => "immutable/other-error",
            Ok(_) => "immutable/ok",
        });
        if matches!(rref, Err(RErr::NotMutable)) {
            st.count("nontrivial-distinct");
        }
    } else {
        st.count("unclaimed-programs");
    }

    // (2) the mutable form on a clone; direct differential for assignment-free programs (untyped, the 7 typed tree-level views and the 7 typed string-level functions)
    log.lock().unwrap().clear();
    let mut c2 = c.clone();
    let mt = match guarded(|| tree.eval_with_context_mut(&mut c2)) {
        Ok(r) => r,
        Err(p) => {
            st.violation(mk("panic", "Ok or Err".into(), format!("panic at {}: {}", p.location, p.message)));
            return;
        },
    };
    st.evaluations += 1;
    if observe_vars(&c) != before {
        st.violation(mk("clone-not-independent", format!("original stays {:?}", before), format!("{:?}", observe_vars(&c))));
        return;
    }
    // the clone stands for "a context in the same state": a second context constructed the same way must
    // give the same result and end in the same state as the clone did (a `Clone` that drops or shares part
    // of the state would otherwise define the expectation), and the builtin switch is part of the state
    {
        let mut c2f = real_context(vars, &log);
        let mtf = guarded(|| tree.eval_with_context_mut(&mut c2f));
        st.evaluations += 1;
        match mtf {
            Ok(mtf) => {
                if res_key(&mtf) != res_key(&mt) || observe_vars(&c2f) != observe_vars(&c2) {
                    st.violation(mk(
                        "clone-differs-from-equally-constructed-context",
                        format!("{} leaving {:?} (context constructed the same way)", res_key(&mtf), observe_vars(&c2f)),
                        format!("{} leaving {:?} (clone)", res_key(&mt), observe_vars(&c2)),
                    ));
                    return;
                }
            },
            Err(p) => {
                st.violation(mk("panic", "Ok or Err".into(), format!("panic at {}: {}", p.location, p.message)));
                return;
            },
        }
        if c.are_builtin_functions_disabled() || c2.are_builtin_functions_disabled() || c2f.are_builtin_functions_disabled() {
            st.violation(mk("builtin-switch-changed", "builtin functions stay enabled in the original, the clone and the twin".into(), format!("disabled: original {}, clone {}, twin {}", c.are_builtin_functions_disabled(), c2.are_builtin_functions_disabled(), c2f.are_builtin_functions_disabled())));
            return;
        }
    }
    if !has_asg {
        st.count("assignment-free-programs");
        st.count("nontrivial-distinct");
        if res_key(&mt) != res_key(&imm) {
            st.violation(mk("mutable-differs-from-immutable", res_key(&imm), res_key(&mt)));
            return;
        }
        if observe_vars(&c2) != before {
            st.violation(mk("assignment-free-program-mutated-context", format!("{:?}", before), format!("{:?}", observe_vars(&c2))));
            return;
        }
    } else if !rc.unclaimed {
        // projection: the mutable reference run tells whether an assignment is applied before the end
        let mut rm = ref_context(vars);
        let mref = rm.eval(ast, Mode::Mutable);
        if !rm.unclaimed && !result_matches(&mref, &mt) {
            st.violation(mk("mutable-result", describe(&mref), res_dbg(&mt)));
            return;
        }
    }

    // (2b) every typed view of an assignment-free program: the shared form equals the mutable form
    if !has_asg {
        macro_rules! typed_pair {
            ($name:literal, $shared:ident, $mutable:ident) => {{
                let a = guarded(|| tree.$shared(&c)).map(|r| format!("{:?}", r));
                let mut cm = c.clone();
                let b = guarded(|| tree.$mutable(&mut cm)).map(|r| format!("{:?}", r));
                st.evaluations += 2;
                match (a, b) {
                    (Ok(a), Ok(b)) => {
                        if a != b {
                            st.violation(mk(concat!("typed-view-differs/", $name), format!("{} (mutable form on a clone)", b), format!("{} (shared form)", a)));
                            return;
                        }
                    },
                    (Err(p), _) | (_, Err(p)) => {
                        st.violation(mk("panic", "Ok or Err".into(), format!("panic at {}: {}", p.location, p.message)));
                        return;
                    },
                }
            }};
        }
        typed_pair!("string", eval_string_with_context, eval_string_with_context_mut);
        typed_pair!("float", eval_float_with_context, eval_float_with_context_mut);
        typed_pair!("int", eval_int_with_context, eval_int_with_context_mut);
        typed_pair!("number", eval_number_with_context, eval_number_with_context_mut);
        typed_pair!("boolean", eval_boolean_with_context, eval_boolean_with_context_mut);
        typed_pair!("tuple", eval_tuple_with_context, eval_tuple_with_context_mut);
        typed_pair!("empty", eval_empty_with_context, eval_empty_with_context_mut);
        // and the string-level functions of the same names
        macro_rules! typed_pair_str {
            ($name:literal, $shared:ident, $mutable:ident) => {{
                let a = guarded(|| evalexpr::$shared(&src, &c)).map(|r| format!("{:?}", r));
                let mut cm = c.clone();
                let b = guarded(|| evalexpr::$mutable(&src, &mut cm)).map(|r| format!("{:?}", r));
                st.evaluations += 2;
                match (a, b) {
                    (Ok(a), Ok(b)) => {
                        if a != b {
                            st.violation(mk(concat!("typed-view-differs/string-level-", $name), format!("{} (mutable form on a clone)", b), format!("{} (shared form)", a)));
                            return;
                        }
                    },
                    (Err(p), _) | (_, Err(p)) => {
                        st.violation(mk("panic", "Ok or Err".into(), format!("panic at {}: {}", p.location, p.message)));
                        return;
                    },
                }
            }};
        }
        typed_pair_str!("string", eval_string_with_context, eval_string_with_context_mut);
        typed_pair_str!("float", eval_float_with_context, eval_float_with_context_mut);
        typed_pair_str!("int", eval_int_with_context, eval_int_with_context_mut);
        typed_pair_str!("number", eval_number_with_context, eval_number_with_context_mut);
        typed_pair_str!("boolean", eval_boolean_with_context, eval_boolean_with_context_mut);
        typed_pair_str!("tuple", eval_tuple_with_context, eval_tuple_with_context_mut);
        typed_pair_str!("empty", eval_empty_with_context, eval_empty_with_context_mut);
        st.count("typed-views-compared");
    }

    // (2c) a variable whose *name* is the program's own source text (set_value accepts any string):
    // unless the program is that bare identifier, it is never read, so nothing may change
    if !matches!(ast, Ast::Var(_)) {
        let mut c3 = c.clone();
        let named = c3.set_value(src.clone(), EV::Int(77)).is_ok() && c3.set_value(format!(" {} ", src), EV::Int(78)).is_ok();
        if named {
            log.lock().unwrap().clear();
            let a = guarded(|| evalexpr::eval_with_context(&src, &c3));
            let mut c4 = c3.clone();
            let b = guarded(|| evalexpr::eval_with_context_mut(&src, &mut c4));
            st.evaluations += 2;
            match (a, b) {
                (Ok(a), Ok(b)) => {
                    if res_key(&a) != res_key(&imm_str) {
                        st.violation(mk("variable-named-like-the-source-changes-shared-result", res_key(&imm_str), res_key(&a)));
                        return;
                    }
                    if res_key(&b) != res_key(&mt) {
                        st.violation(mk("variable-named-like-the-source-changes-mutable-result", res_key(&mt), res_key(&b)));
                        return;
                    }
                },
                (Err(p), _) | (_, Err(p)) => {
                    st.violation(mk("panic", "Ok or Err".into(), format!("panic at {}: {}", p.location, p.message)));
                    return;
                },
            }
            st.count("source-named-variable-contexts");
        }
    }

    // (3) mutable entry point on a context without variable storage
    log.lock().unwrap().clear();
    let mut ns = NoStore { inner: c.clone() };
    let nsr = match guarded(|| tree.eval_with_context_mut(&mut ns)) {
        Ok(r) => r,
        Err(p) => {
            st.violation(mk("panic", "Ok or Err".into(), format!("panic at {}: {}", p.location, p.message)));
            return;
        },
    };
    st.evaluations += 1;
    let mut rn = ref_context(vars);
    let nref = rn.eval(ast, Mode::NoStorage);
    if !rn.unclaimed {
        if !result_matches(&nref, &nsr) {
            st.violation(mk("no-storage-context", describe(&nref), res_dbg(&nsr)));
            return;
        }
        if matches!(nref, Err(RErr::NotMutable)) {
            st.count("no-storage/context-not-mutable");
        }
    }
    if observe_vars(&ns.inner) != before {
        st.violation(mk("no-storage-context-mutated", format!("{:?}", before), format!("{:?}", observe_vars(&ns.inner))));
    }

    // (4) the two contexts without any storage, for programs that need no variables
    if ci == 0 {
        let e1 = EmptyContext::<DefaultNumericTypes>::default();
        let e2 = EmptyContextWithBuiltinFunctions::<DefaultNumericTypes>::default();
        let mut re = RCtx::new();
        re.builtins_enabled = false;
        let r1 = re.eval(ast, Mode::Immutable);
        let mut rb = RCtx::new();
        let r2 = rb.eval(ast, Mode::Immutable);
        for (name, real, want, rcx) in [
            ("EmptyContext", guarded(|| tree.eval_with_context(&e1)), r1, re),
            ("EmptyContextWithBuiltinFunctions", guarded(|| tree.eval_with_context(&e2)), r2, rb),
        ] {
            st.evaluations += 1;
            match real {
                Err(p) => st.violation(mk("panic", "Ok or Err".into(), format!("{}: panic at {}: {}", name, p.location, p.message))),
                Ok(real) => {
                    let ok = rcx.unclaimed
                        || result_matches(&want, &real)
                        || match (&rcx.opassign_alt, &real) {
                            (Some(alt), Err(e)) => err_matches(alt, e),
                            _ => false,
                        };
                    if !ok {
                        st.violation(mk("empty-context", format!("{}: {}", name, describe(&want)), res_dbg(&real)));
                    }
                },
            }
        }
    }
}

/// Assignment operators whose left operand is not a bare identifier: on a shared context a reached
/// assignment fails with ContextNotMutable whatever its operands evaluated to; an operand that fails
/// is reported first.
fn odd_targets() -> Stats {
    let mut st = Stats::new();
    let lhs = ["1", "(x)", "x + 1", "(1, 2)", "true", "\"q\"", "r (1)", "()", "u", "1 / 0", "- x"];
    let ops = ["=", "+=", "-=", "*=", "/=", "%=", "^=", "&&=", "||="];
    let rhs = ["2", "x", "u", "1 / 0", "r (3)", "(y = 1)"];
    let vars = [("x", RV::Int(1))];
    for l in lhs {
        for op in ops {
            for r in rhs {
                let src = format!("{} {} {}", l, op, r);
                let tree = match build_operator_tree::<DefaultNumericTypes>(&src) {
                    Ok(t) => t,
                    Err(_) => {
                        st.count("odd-targets/rejected-at-precompile");
                        continue;
                    },
                };
                // expectation from the operands alone, each evaluated on its own in immutable mode
                let operand = |text: &str| -> Option<RErr> {
                    let t = build_operator_tree::<DefaultNumericTypes>(text).ok()?;
                    let ast = super::selftest::node_to_ast(&t)?;
                    let mut rc = ref_context(&vars);
                    match rc.eval(&ast, Mode::Immutable) {
                        Ok(_) => None,
                        Err(e) => Some(e),
                    }
                };
                // the tree builder may not split the source at the operator we wrote (e.g. `x + 1 = 2`);
                // only judge sources whose tree is that assignment applied to exactly these two operands
                let shape_ok = {
                    let nt = crate::refmodel::ast::node_to_nt(&tree);
                    let want_l = build_operator_tree::<DefaultNumericTypes>(l).map(|t| crate::refmodel::ast::node_to_nt(&t));
                    let want_r = build_operator_tree::<DefaultNumericTypes>(r).map(|t| crate::refmodel::ast::node_to_nt(&t));
                    nt.label == op && nt.kids.len() == 2 && Ok(&nt.kids[0]) == want_l.as_ref() && Ok(&nt.kids[1]) == want_r.as_ref()
                };
                if !shape_ok {
                    st.count("odd-targets/other-tree-shape");
                    continue;
                }
                let log = Arc::new(Mutex::new(Vec::new()));
                let c = real_context(&vars, &log);
                let before = observe_vars(&c);
                let real = match guarded(|| tree.eval_with_context(&c)) {
                    Ok(r) => r,
                    Err(p) => {
                        st.violation(Violation {
                            property: ID,
                            kind: "panic".into(),
                            input: json!({"source": src, "context": 1}),
                            expected: "Ok or Err".into(),
                            actual: format!("panic at {}: {}", p.location, p.message),
                            test: String::new(),
                        });
                        continue;
                    },
                };
                st.evaluations += 1;
                st.count("odd-targets/checked");
                let want: RErr = operand(l).or_else(|| operand(r)).unwrap_or(RErr::NotMutable);
                let ok = matches!(&real, Err(e) if err_matches(&want, e)) && observe_vars(&c) == before;
                if !ok {
                    st.violation(Violation {
                        property: ID,
                        kind: "reached-assignment-not-rejected-as-immutable".into(),
                        input: json!({"source": src, "context": 1}),
                        expected: format!("Err({:?}) on a shared context (x = 1; functions r, s, typeof), context unchanged", want),
                        actual: format!("{} / variables {:?}", res_dbg(&real), observe_vars(&c)),
                        test: test_wrap("c11_replay", &format!("    let mut c = HashMapContext::<DefaultNumericTypes>::new();\n    c.set_value(\"x\".into(), Value::Int(1)).unwrap();\n    c.set_function(\"r\".into(), Function::new(|a| Ok(a.clone()))).unwrap();\n    panic!(\"{{:?}}\", eval_with_context({:?}, &c));\n", src)),
                    });
                }
            }
        }
    }
    st
}

/// Whole inputs that look like a single literal or a signed literal, and programs whose user functions
/// re-enter the library (a function defined by an expression evaluates it through the string-level shared
/// entry point, through the mutable one, or through a precompiled tree): every string-level and tree-level,
/// typed and untyped shared form must equal its mutable twin on a clone.
fn whole_inputs_and_reentrant_functions() -> Stats {
    use evalexpr::{ContextWithMutableFunctions, ContextWithMutableVariables, Function, HashMapContext, Value};
    let mut st = Stats::new();
    let mut c: HCtx = HashMapContext::new();
    c.set_value("x".into(), Value::Int(3)).unwrap();
    c.set_value("t".into(), Value::Boolean(true)).unwrap();
    let inner = |arg: &EV| -> HCtx {
        let mut i: HCtx = HashMapContext::new();
        let _ = i.set_value("v".into(), arg.clone());
        i
    };
    c.set_function("sq".into(), Function::new(move |a| evalexpr::eval_with_context("v * v", &inner(a)))).unwrap();
    c.set_function("sqi".into(), Function::new(move |a| evalexpr::eval_int_with_context("v * v", &inner(a)).map(Value::Int))).unwrap();
    c.set_function("sqm".into(), Function::new(move |a| evalexpr::eval_with_context_mut("w = v * v; w", &mut inner(a)))).unwrap();
    c.set_function("sqt".into(), Function::new(move |a| build_operator_tree::<DefaultNumericTypes>("v * v")?.eval_with_context(&inner(a)))).unwrap();
    c.set_function("sqf".into(), Function::new(move |a| evalexpr::eval(&format!("{} * {}", a, a)))).unwrap();
    let sources = [
        "+7", "+1.5", " +7 ", "-9223372036854775808", "9223372036854775807", "-7", "- 7", "1e+3", "1e-3", "+x", "-x", "7", "007", ".5", "5.", "1e3", "0x10", "-0x10",
        "true", " true ", "\"s\"", "x", " x ", "(7)", "+", "-", "", " ", "7 7", "+ 7", "++7", "--7", "1.5.", "1e", "e1", "+.5", "-.5e-3", "+inf", "-inf", "nan",
        "sq(3) + 1", "sq(sq(2))", "sqi(3)", "sqm(3)", "sqt(3)", "sqf(4)", "sq(x); sq(x)", "(sq(2), sqm(3), sqt(4))", "sq(t)", "sq()", "sq(sqm(sqt(2)))", "x + sq(x) * sqi(2)",
    ];
    for src in sources {
        let mut results: Vec<(String, String)> = Vec::new();
        macro_rules! both {
            ($label:literal, $shared:expr, $mutable:expr) => {{
                let a = guarded(|| $shared).map(|r| format!("{:?}", r)).unwrap_or_else(|p| format!("panic at {}: {}", p.location, p.message));
                let b = guarded(|| $mutable).map(|r| format!("{:?}", r)).unwrap_or_else(|p| format!("panic at {}: {}", p.location, p.message));
                st.evaluations += 2;
                results.push((format!("{} (shared)", $label), a));
                results.push((format!("{} (mutable on a clone)", $label), b));
            }};
        }
        both!("eval_with_context", evalexpr::eval_with_context(src, &c), evalexpr::eval_with_context_mut(src, &mut c.clone()));
        both!("eval_int_with_context", evalexpr::eval_int_with_context(src, &c), evalexpr::eval_int_with_context_mut(src, &mut c.clone()));
        both!("eval_float_with_context", evalexpr::eval_float_with_context(src, &c), evalexpr::eval_float_with_context_mut(src, &mut c.clone()));
        both!("eval_number_with_context", evalexpr::eval_number_with_context(src, &c), evalexpr::eval_number_with_context_mut(src, &mut c.clone()));
        both!("eval_boolean_with_context", evalexpr::eval_boolean_with_context(src, &c), evalexpr::eval_boolean_with_context_mut(src, &mut c.clone()));
        both!("eval_string_with_context", evalexpr::eval_string_with_context(src, &c), evalexpr::eval_string_with_context_mut(src, &mut c.clone()));
        both!(
            "build_operator_tree + Node::eval_with_context",
            build_operator_tree::<DefaultNumericTypes>(src).and_then(|t| t.eval_with_context(&c)),
            build_operator_tree::<DefaultNumericTypes>(src).and_then(|t| t.eval_with_context_mut(&mut c.clone()))
        );
        st.count("whole-input-and-reentrant-sources");
        // within each pair the two forms agree; the untyped string-level and tree-level forms agree as well
        let mut bad: Option<String> = None;
        for pair in results.chunks(2) {
            if pair[0].1 != pair[1].1 {
                bad = Some(format!("{} = {} but {} = {}", pair[0].0, pair[0].1, pair[1].0, pair[1].1));
                break;
            }
        }
        if bad.is_none() && results[0].1 != results[12].1 {
            bad = Some(format!("{} = {} but {} = {}", results[0].0, results[0].1, results[12].0, results[12].1));
        }
        if let Some(b) = bad {
            st.violation(Violation {
                property: ID,
                kind: "whole-input-or-reentrant-function".into(),
                input: json!({"source": src, "context": "x = 3, t = true, functions sq / sqi / sqm / sqt / sqf defined by expressions"}),
                expected: "the shared form equals the mutable form on a clone, string level equals tree level".into(),
                actual: b,
                test: test_wrap("c11_replay", &format!("    // context: x = 3, t = true; sq = |a| eval_with_context(\"v * v\", &{{v = a}}) etc.\n    // compare eval_with_context({:?}, &c) with eval_with_context_mut({:?}, &mut c.clone())\n", src, src)),
            });
        }
    }
    st
}

/// (round 12: plus a used context overwritten by `clone_from`.)
/// Context configurations beyond variables: the builtin switch (on / off), a user function shadowing a
/// builtin, x bound or not — each constructed twice the same way and also cloned, against programs that
/// call builtins, user functions and unknown functions. The shared form on the original must equal the
/// mutable form on the twin and on the clone; every context ends with the variables and the switch it
/// started with (the programs are assignment-free); with the switch off an unshadowed builtin is unknown.
fn configured_contexts() -> Stats {
    use evalexpr::{ContextWithMutableFunctions, Function, HashMapContext, Value};
    let mut st = Stats::new();
    let sources = [
        "max(x, 7)", "min(1, 2)", "len(\"ab\")", "str::from(x)", "math::sqrt(4)", "if(true, 1, 2)", "typeof(1)", "x + 1", "floor(2.5)",
        "contains((1, 2), 1)", "bitand(3, 1)", "max(x, 7) + len(\"a\")", "g(1)", "u(max(1, 2))", "max 1", "(max(1, 2), u(3))", "1 + 1", "str::to_uppercase(\"a\")",
        "math::abs(-1)", "round(1.5)", "max(u(1), u(2))", "u(1); max(1, 2)", "max(1, 2); u(1)", "1 / 0", "max()", "max(true, 1)",
        "stale", "stale + 1", "u(stale)", "g(x)", "(x, stale)",
    ];
    for disabled in [false, true] {
        for shadow in [false, true] {
            for bound in [false, true] {
                let build = || -> HCtx {
                    let mut c: HCtx = HashMapContext::new();
                    if bound {
                        c.set_value("x".into(), Value::Int(3)).unwrap();
                    }
                    c.set_function("u".into(), Function::new(|a| Ok(a.clone()))).unwrap();
                    if shadow {
                        c.set_function("max".into(), Function::new(|_| Ok(Value::Int(-5)))).unwrap();
                    }
                    c.set_builtin_functions_disabled(disabled).unwrap();
                    c
                };
                let cname = format!("builtins {}, max {}, x {}", if disabled { "disabled" } else { "enabled" }, if shadow { "shadowed by a user function" } else { "not shadowed" }, if bound { "= 3" } else { "unbound" });
                for src in sources {
                    let c = build();
                    let mut twin = build();
                    let mut cl = c.clone();
                    let mut cl2 = c.clone().clone();
                    // a used context (other variables, `x` of another type, other functions under the same and under
                    // other names, the opposite switch) overwritten by `clone_from`: also "a context in the same state"
                    let mut cf: HCtx = HashMapContext::new();
                    cf.set_value("stale".into(), Value::Int(1)).unwrap();
                    cf.set_value("x".into(), Value::String("stale".into())).unwrap();
                    cf.set_function("u".into(), Function::new(|_| Ok(Value::Int(-9)))).unwrap();
                    cf.set_function("g".into(), Function::new(|_| Ok(Value::Int(-8)))).unwrap();
                    if !shadow {
                        cf.set_function("max".into(), Function::new(|_| Ok(Value::Int(-7)))).unwrap();
                    }
                    cf.set_builtin_functions_disabled(!disabled).unwrap();
                    cf.clone_from(&c);
                    let before = observe_vars(&c);
                    let fmt = |r: Result<ERes, PanicInfo>| r.map(|r| res_key(&r)).unwrap_or_else(|p| format!("panic at {}: {}", p.location, p.message));
                    let a = fmt(guarded(|| evalexpr::eval_with_context(src, &c)));
                    let b = fmt(guarded(|| evalexpr::eval_with_context_mut(src, &mut twin)));
                    let d = fmt(guarded(|| evalexpr::eval_with_context_mut(src, &mut cl)));
                    let e = fmt(guarded(|| evalexpr::eval_with_context_mut(src, &mut cl2)));
                    let f = fmt(guarded(|| evalexpr::eval_with_context_mut(src, &mut cf)));
                    let t = fmt(guarded(|| build_operator_tree::<DefaultNumericTypes>(src).and_then(|t| t.eval_with_context(&c))));
                    st.evaluations += 6;
                    st.count("configured-context-cases");
                    let mut bad: Option<(String, String)> = None;
                    if a != b || a != d || a != e || a != t || a != f {
                        bad = Some((format!("eval_with_context = {}", a), format!("eval_with_context_mut on a context constructed the same way = {}, on a clone = {}, on a clone of a clone = {}, on a used context overwritten by clone_from = {}, tree level shared = {}", b, d, e, f, t)));
                    }
                    for (n, x) in [("original", &c), ("twin", &twin), ("clone", &cl), ("clone of clone", &cl2), ("used context overwritten by clone_from", &cf)] {
                        if bad.is_none() && (x.are_builtin_functions_disabled() != disabled || observe_vars(x) != before) {
                            bad = Some((format!("builtins disabled = {}, variables {:?}", disabled, before), format!("{}: builtins disabled = {}, variables {:?}", n, x.are_builtin_functions_disabled(), observe_vars(x))));
                        }
                    }
                    // with the switch off, an unshadowed builtin called first is an unknown function
                    if bad.is_none() && disabled && ["min(1, 2)", "len(\"ab\")", "math::sqrt(4)", "if(true, 1, 2)", "typeof(1)", "floor(2.5)", "bitand(3, 1)", "round(1.5)", "math::abs(-1)"].contains(&src) {
                        if !a.starts_with("Err(FunctionIdentifierNotFound") {
                            bad = Some(("Err(FunctionIdentifierNotFound(..)) with builtin functions disabled".into(), a.clone()));
                        } else {
                            st.count("configured-context/disabled-builtin-unknown");
                        }
                    }
                    if a.starts_with("Ok") {
                        st.count("configured-context/ok");
                    }
                    if let Some((expected, actual)) = bad {
                        st.violation(Violation {
                            property: ID,
                            kind: "configured-context".into(),
                            input: json!({"source": src, "context": cname}),
                            expected,
                            actual,
                            test: test_wrap("c11_replay", &format!("    // context: {}; user function u = identity\n    // compare eval_with_context({:?}, &c) with eval_with_context_mut({:?}, &mut c.clone()) and with a second context constructed the same way\n", cname, src, src)),
                        });
                        return st;
                    }
                }
            }
        }
    }
    st
}

pub fn run(cfg: &Cfg) -> Report {
    let n = cfg.tier.pick(2, 3);
    let counts = progs::counts(3);
    let lv = progs::leaves();
    let ctxs = progs::initial_contexts();
    let mut stats = Stats::new();
    for k in 0..=n {
        stats.merge(par_chunks(counts[k], 2048, |r| {
            let mut st = Stats::new();
            for idx in r {
                let ast = progs::unrank(&counts, &lv, k, idx);
                for (ci, vars) in ctxs.iter().enumerate() {
                    check(&ast, vars, ci, &mut st);
                }
                st.count("programs");
            }
            st
        }));
    }
    stats.merge(odd_targets());
    stats.merge(whole_inputs_and_reentrant_functions());
    stats.merge(configured_contexts());
    // scaling families: long programs with one assignment (or none) at position k
    {
        use super::scale::{int, sizes};
        let mut st = Stats::new();
        for n in sizes(cfg.tier == Tier::Thorough) {
            let positions: Vec<Option<usize>> = if n <= 20 { std::iter::once(None).chain((0..n).map(Some)).collect() } else { vec![None, Some(0), Some(n / 2), Some(n - 1)] };
            for k in positions {
                let elems: Vec<Ast> = (0..n)
                    .map(|i| {
                        if Some(i) == k {
                            Ast::Asg(if i % 2 == 0 { None } else { Some(crate::refmodel::ops::BinOp::Add) }, "x".into(), Box::new(int(i as i64)))
                        } else if i % 3 == 0 {
                            Ast::Call("r".into(), Box::new(Ast::Var("x".into())))
                        } else {
                            Ast::Bin(crate::refmodel::ops::BinOp::Add, Box::new(Ast::Var("x".into())), Box::new(int(i as i64)))
                        }
                    })
                    .collect();
                if n >= 2 {
                    for ast in [Ast::Chain(elems.clone()), Ast::Tuple(elems.clone())] {
                        check(&ast, &ctxs[1], 1, &mut st);
                        st.count("scaling-family-programs");
                    }
                }
            }
        }
        stats.merge(st);
    }
    for src in ["r (1) + (x = 2)", "(1 / 0 , x = 2)", "x += u", "r (x) ; s (x + 1)"] {
        let log = Arc::new(Mutex::new(Vec::new()));
        let c = real_context(&[("x", RV::Int(1))], &log);
        stats.sample(json!({"source": src, "context": "x = 1", "eval_with_context": format!("{:?}", evalexpr::eval_with_context(src, &c)),
            "eval_with_context_mut_on_clone": format!("{:?}", evalexpr::eval_with_context_mut(src, &mut c.clone()))}));
    }
    let guards = vec![
        ("assignment-free programs were compared between both forms".to_string(), stats.get("assignment-free-programs") > 0),
        ("ContextNotMutable outcomes and earlier errors were both seen".to_string(),
            stats.get("immutable/context-not-mutable") > 0 && stats.get("immutable/other-error") > 0 && stats.get("immutable/ok") > 0),
        ("the no-storage context rejected assignments".to_string(), stats.get("no-storage/context-not-mutable") > 0),
        ("the Debug renderings used to compare typed results tell all pool values apart".to_string(), debug_renderings_tell_values_apart()),
        ("configured contexts: builtins were called with the switch on and refused with it off".to_string(), stats.get("configured-context/ok") > 0 && stats.get("configured-context/disabled-builtin-unknown") > 0),
    ];
    Report {
        property: ID,
        level: "model_checking",
        rule: format!("every program with <= {n} operator nodes of the C08 alphabet (assignments and op-assigns at every position, recording and failing calls, failing atoms) x 3 initial HashMapContext populations; per (program, context): eval_with_context on the tree and on the string (shared context), eval_with_context_mut on a clone, eval_with_context_mut on a harness context with the default set_value, and for the empty population EmptyContext and EmptyContextWithBuiltinFunctions; plus 11 x 9 x 6 sources `<lhs> <assignment operator> <rhs>` whose left operand is not a bare identifier (literal, group, sum, tuple, call, failing expression), evaluated on a shared context; plus 8 context configurations (builtin switch on / off x a user function shadowing `max` or not x `x` bound or not) x 31 assignment-free sources calling builtins, user functions and unknown functions and reading bound and unbound variables: shared form on the original = mutable form on a context constructed the same way = on a clone = on a clone of a clone = on a used context (other variables, functions and switch) overwritten by clone_from, switch and variables unchanged everywhere, unshadowed builtins unknown with the switch off; in the program enumeration the mutable run is also repeated on a second context constructed the same way and must agree with the clone's run; plus scaling families (chains and tuples of n elements with an assignment at every position, n in 1..20 and up to 129 / 1..40 and up to 400); oracle: reference interpreter in immutable / mutable / no-storage mode, direct differential between the two forms for assignment-free programs, context observation before/after. States = (program, context) pairs, transitions = evaluations. Non-trivial = assignment-free programs (differential) and programs ending in ContextNotMutable; each pair is enumerated once"),
        nontrivial_set: "counter:nontrivial-distinct",
        exhaustive: true,
        bound_completed: format!("programs of {n} operator nodes"),
        assumptions: vec![
            "reference interpreter mc/src/refmodel/interp.rs; an immutable-mode op-assign whose read or operator would fail may report either that error or ContextNotMutable".into(),
        ],
        stats: {
            stats.states = stats.get("programs") * ctxs.len() as u64;
            stats.transitions = stats.evaluations;
            stats
        },
        guards,
        extra: json!({}),
    }
}

pub fn replay(case: &J) -> i32 {
    let input = &case["input"];
    let src = input["source"].as_str().unwrap_or_else(|| machinery_error("C11 replay: no source"));
    if case["kind"].as_str() == Some("whole-input-or-reentrant-function") {
        let all = whole_inputs_and_reentrant_functions();
        let mut only = Stats::new();
        only.evaluations = 1;
        only.violations.extend(all.violations.into_iter().filter(|v| v.input["source"] == case["input"]["source"]));
        return super::replay_verdict(ID, &only);
    }
    if case["kind"].as_str() == Some("configured-context") {
        return super::replay_verdict(ID, &configured_contexts());
    }
    let ci = input["context"].as_u64().unwrap_or(0) as usize;
    let counts = progs::counts(3);
    let lv = progs::leaves();
    let ctxs = progs::initial_contexts();
    let mut st = Stats::new();
    for n in 0..=3 {
        for idx in 0..counts[n] {
            let ast = progs::unrank(&counts, &lv, n, idx);
            if source_of(&ast) == src {
                check(&ast, &ctxs[ci], ci, &mut st);
                return super::replay_verdict(ID, &st);
            }
        }
    }
    if let Some(ast) = build_operator_tree::<DefaultNumericTypes>(src).ok().and_then(|t| super::selftest::node_to_ast(&t)) {
        check(&ast, &ctxs[ci], ci, &mut st);
        let odd = odd_targets();
        for v in odd.violations {
            if v.input["source"].as_str() == Some(src) {
                st.violation(v);
            }
        }
        return super::replay_verdict(ID, &st);
    }
    let odd = odd_targets();
    for v in odd.violations {
        if v.input["source"].as_str() == Some(src) {
            st.violation(v);
        }
    }
    st.evaluations += 1;
    super::replay_verdict(ID, &st)
}
