//! C01 — the library never panics, whatever the input.
//! Oracle: no unwind, no abnormal exit. Nothing else is compared here.

use super::common::*;
use crate::engine::*;
use crate::refmodel::builtins::BUILTIN_NAMES;
use crate::refmodel::ops::{ASSIGN_BINOPS, BINOPS, UNOPS};
use crate::refmodel::value::*;
use evalexpr::*;
use serde_json::{json, Value as J};

const ID: &str = "C01";

fn fmt_all_value(v: &EV) -> usize {
    let a = format!("{}", v);
    let b = format!("{:?}", v);
    let c = v.clone();
    let d = v.str_from();
    a.len() + b.len() + d.len() + (c == *v) as usize
}

fn fmt_all_err(e: &EErr) -> usize {
    let a = format!("{}", e);
    let b = format!("{:?}", e);
    let c = e.clone();
    a.len() + b.len() + (c == *e) as usize
}

fn fmt_res(r: &ERes) -> usize {
    match r {
        Ok(v) => fmt_all_value(v),
        Err(e) => fmt_all_err(e),
    }
}

fn fmt_typed<T: std::fmt::Debug>(r: &Result<T, EErr>) -> usize {
    match r {
        Ok(v) => format!("{:?}", v).len(),
        Err(e) => fmt_all_err(e),
    }
}

/// The contexts every input is evaluated in.
pub struct Ctxs {
    pub hash: Vec<HCtx>,
    pub empty: EmptyContext<DefaultNumericTypes>,
    pub empty_builtins: EmptyContextWithBuiltinFunctions<DefaultNumericTypes>,
}

pub fn contexts() -> Ctxs {
    let mut hash = vec![HCtx::new()];
    // every identifier of the alphabets bound to each value type in turn
    for v in [
        RV::Int(i64::MAX),
        RV::Int(i64::MIN),
        RV::Float(f64::NAN),
        RV::Str("äb".into()),
        RV::Bool(true),
        RV::Tuple(vec![RV::Int(1), RV::Tuple(vec![])]),
        RV::Empty,
    ] {
        let mut c = HCtx::new();
        for n in ["a", "b", "x", "e"] {
            c.set_value(n.into(), v.to_ev()).unwrap();
        }
        hash.push(c);
    }
    // total, failing and builtin-shadowing user functions; builtins off
    let mut c = HCtx::new();
    c.set_value("a".into(), Value::Int(3)).unwrap();
    // `f` re-enters the library (a user function may itself be defined by an expression): string-level and
    // tree-level, shared and mutable, context-free
    c.set_function(
        "f".into(),
        Function::new(|a| {
            let inner = HCtx::new();
            let _ = evalexpr::eval_with_context("1 + 1", &inner);
            let _ = evalexpr::eval_int_with_context("2 * 3", &inner);
            let _ = evalexpr::eval_with_context_mut("q = 1; q", &mut inner.clone());
            let _ = evalexpr::eval("(1, 2)");
            let _ = build_operator_tree::<DefaultNumericTypes>("a + 1").map(|t| t.eval_with_context(&inner));
            Ok(a.clone())
        }),
    )
    .unwrap();
    c.set_function("a".into(), Function::new(|a| Ok(Value::Tuple(vec![a.clone(), a.clone()])))).unwrap();
    c.set_function("g".into(), Function::new(|_| Err(EvalexprError::CustomMessage("g fails".into())))).unwrap();
    c.set_function("len".into(), Function::new(|_| Ok(Value::Int(-1)))).unwrap();
    hash.push(c.clone());
    c.set_builtin_functions_disabled(true).unwrap();
    hash.push(c);
    Ctxs {
        hash,
        empty: Default::default(),
        empty_builtins: Default::default(),
    }
}

/// Everything the property lists for one source string. `typed`: also all typed wrappers.
pub fn exercise(src: &str, cx: &Ctxs, typed: bool) -> usize {
    let mut n = 0usize;
    let tree = build_operator_tree::<DefaultNumericTypes>(src);
    match &tree {
        Ok(t) => {
            n += format!("{}", t).len() + format!("{:?}", t).len();
            let t2 = t.clone();
            n += (t2 == *t) as usize;
            n += t.iter_identifiers().count() + t.iter_variable_identifiers().count() + t.iter_function_identifiers().count();
            n += t.iter_read_variable_identifiers().count() + t.iter_write_variable_identifiers().count();
            let mut t3 = t.clone();
            n += t3.iter_identifiers_mut().count();
            for node in t.iter() {
                n += format!("{}", node.operator()).len();
            }
            n += fmt_res(&t.eval());
            for c in &cx.hash {
                n += fmt_res(&t.eval_with_context(c));
                let mut c2 = c.clone();
                n += fmt_res(&t.eval_with_context_mut(&mut c2));
                n += format!("{:?}", c2).len();
            }
            n += fmt_res(&t.eval_with_context(&cx.empty));
            n += fmt_res(&t.eval_with_context(&cx.empty_builtins));
            if typed {
                let c = &cx.hash[8];
                n += fmt_typed(&t.eval_string()) + fmt_typed(&t.eval_int()) + fmt_typed(&t.eval_float()) + fmt_typed(&t.eval_number());
                n += fmt_typed(&t.eval_boolean()) + fmt_typed(&t.eval_tuple()) + fmt_typed(&t.eval_empty());
                n += fmt_typed(&t.eval_string_with_context(c)) + fmt_typed(&t.eval_int_with_context(c)) + fmt_typed(&t.eval_float_with_context(c));
                n += fmt_typed(&t.eval_number_with_context(c)) + fmt_typed(&t.eval_boolean_with_context(c));
                n += fmt_typed(&t.eval_tuple_with_context(c)) + fmt_typed(&t.eval_empty_with_context(c));
                let mut m = c.clone();
                n += fmt_typed(&t.eval_string_with_context_mut(&mut m)) + fmt_typed(&t.eval_int_with_context_mut(&mut m));
                n += fmt_typed(&t.eval_float_with_context_mut(&mut m)) + fmt_typed(&t.eval_number_with_context_mut(&mut m));
                n += fmt_typed(&t.eval_boolean_with_context_mut(&mut m)) + fmt_typed(&t.eval_tuple_with_context_mut(&mut m));
                n += fmt_typed(&t.eval_empty_with_context_mut(&mut m));
            }
        },
        Err(e) => n += fmt_all_err(e),
    }
    // string-level forms
    n += fmt_res(&eval(src));
    n += fmt_res(&eval_with_context(src, &cx.hash[8]));
    let mut m = cx.hash[1].clone();
    n += fmt_res(&eval_with_context_mut(src, &mut m));
    n += fmt_res(&eval_with_context(src, &cx.empty_builtins));
    if typed {
        let c = &cx.hash[3];
        n += fmt_typed(&eval_string(src)) + fmt_typed(&eval_int(src)) + fmt_typed(&eval_float(src)) + fmt_typed(&eval_number(src));
        n += fmt_typed(&eval_boolean(src)) + fmt_typed(&eval_tuple(src)) + fmt_typed(&eval_empty(src));
        n += fmt_typed(&eval_string_with_context(src, c)) + fmt_typed(&eval_int_with_context(src, c)) + fmt_typed(&eval_float_with_context(src, c));
        n += fmt_typed(&eval_number_with_context(src, c)) + fmt_typed(&eval_boolean_with_context(src, c));
        n += fmt_typed(&eval_tuple_with_context(src, c)) + fmt_typed(&eval_empty_with_context(src, c));
        let mut m = c.clone();
        n += fmt_typed(&eval_string_with_context_mut(src, &mut m)) + fmt_typed(&eval_int_with_context_mut(src, &mut m));
        n += fmt_typed(&eval_float_with_context_mut(src, &mut m)) + fmt_typed(&eval_number_with_context_mut(src, &mut m));
        n += fmt_typed(&eval_boolean_with_context_mut(src, &mut m)) + fmt_typed(&eval_tuple_with_context_mut(src, &mut m));
        n += fmt_typed(&eval_empty_with_context_mut(src, &mut m));
    }
    n
}

fn panic_violation(kind: &str, input: J, p: &PanicInfo, test_body: String) -> Violation {
    Violation {
        property: ID,
        kind: kind.into(),
        input,
        expected: "returns Ok or Err without unwinding".into(),
        actual: format!("panic at {}: {}", p.location, p.message),
        test: test_wrap("c01_replay", &test_body),
    }
}

/// Set in the `c01-trace` child: every input is printed before it is executed, so that after an abnormal
/// exit (stack overflow, abort: nothing `catch_unwind` can see) the last line names the input.
static TRACE: std::sync::atomic::AtomicBool = std::sync::atomic::AtomicBool::new(false);

fn trace(input: J) {
    if TRACE.load(std::sync::atomic::Ordering::Relaxed) {
        println!("TRACE {}", input);
    }
}

fn check_source(src: &str, cx: &Ctxs, typed: bool, st: &mut Stats) {
    trace(json!({"source": src}));
    st.evaluations += 1;
    match guarded(|| exercise(src, cx, typed)) {
        Ok(n) => {
            std::hint::black_box(n);
        },
        Err(p) => st.violation(panic_violation(
            "panic-on-source",
            json!({"source": src}),
            &p,
            format!("    let s = {:?};\n    let _ = build_operator_tree::<DefaultNumericTypes>(s).map(|t| (format!(\"{{}} {{:?}}\", t, t), t.eval()));\n    let _ = eval(s);\n    // (the check evaluates the source in 12 contexts and formats every result; see mc/src/props/c01.rs `exercise`)\n", src),
        )),
    }
}

// (a) token sequences
fn token_alphabet() -> Vec<&'static str> {
    vec!["1", "a", "\"s\"", "+", "-", "*", "^", "!", "=", "+=", "==", ",", ";", "(", ")", "&", "|", "f", "true", "2.5"]
}

fn part_tokens(max: usize, typed_upto: usize) -> Stats {
    let alpha = token_alphabet();
    let mut prefixes: Vec<Vec<&'static str>> = vec![vec![]];
    for t in &alpha {
        prefixes.push(vec![t]);
        for u in &alpha {
            prefixes.push(vec![t, u]);
        }
    }
    let mut st = par_items(&prefixes, |_, p| {
        let cx = contexts();
        let mut st = Stats::new();
        fn ext(cur: &mut Vec<&'static str>, alpha: &[&'static str], max: usize, f: &mut dyn FnMut(&[&'static str])) {
            f(cur);
            if cur.len() >= max || cur.len() < 2 {
                return;
            }
            for t in alpha {
                cur.push(t);
                ext(cur, alpha, max, f);
                cur.pop();
            }
        }
        let mut cur = p.clone();
        ext(&mut cur, &alpha, max, &mut |seq| {
            let src = seq.join(" ");
            check_source(&src, &cx, seq.len() <= typed_upto, &mut st);
            st.states += 1;
            st.count("a/token-sequences");
        });
        st
    });
    st.transitions = st.states.saturating_sub(1);
    st.add("a/max-length", max as u64);
    st
}

// (b) character strings
fn char_alphabet() -> Vec<char> {
    vec![
        '0', '1', '9', 'a', 'e', 'x', '.', '"', '\\', '/', '*', '+', '-', '=', '!', '<', '>', '&', '|', '(', ')', ',', ';', ' ', '\n', 'ä', '😀',
    ]
}

fn part_chars(max: usize) -> Stats {
    let alpha = char_alphabet();
    let firsts: Vec<Option<char>> = std::iter::once(None).chain(alpha.iter().map(|c| Some(*c))).collect();
    let mut st = par_items(&firsts, |_, first| {
        let cx = contexts();
        let mut st = Stats::new();
        fn go(cur: &mut String, len: usize, alpha: &[char], max: usize, cx: &Ctxs, st: &mut Stats) {
            check_source(cur, cx, len <= 2, st);
            st.states += 1;
            st.count("b/char-strings");
            if len == max {
                return;
            }
            for c in alpha {
                cur.push(*c);
                go(cur, len + 1, alpha, max, cx, st);
                cur.pop();
            }
        }
        match first {
            None => {
                check_source("", &cx, true, &mut st);
                st.states += 1;
            },
            Some(c) => {
                let mut s = c.to_string();
                go(&mut s, 1, &alpha, max, &cx, &mut st);
            },
        }
        st
    });
    st.transitions += st.states.saturating_sub(1);
    st.add("b/max-length", max as u64);
    st
}

// (c) builtins × argument values
fn part_builtins(tier: Tier) -> Stats {
    let args = super::c10::argument_values(tier);
    let trees: Vec<(&str, ENode)> = BUILTIN_NAMES
        .iter()
        .map(|n| (*n, build_operator_tree::<DefaultNumericTypes>(&format!("{}(x)", n)).unwrap()))
        .collect();
    let n = args.len();
    par_chunks(n as u64, 512, |r| {
        let mut st = Stats::new();
        let eb = EmptyContextWithBuiltinFunctions::<DefaultNumericTypes>::default();
        for i in r {
            let arg = &args[i as usize];
            let c = ctx_with(&[("x", arg)]);
            let lit = arg.literal();
            for (name, tree) in &trees {
                trace(json!({"builtin": name, "argument": arg.to_json()}));
                st.evaluations += 1;
                st.count("c/builtin-calls");
                let r = guarded(|| {
                    let r = tree.eval_with_context(&c);
                    let mut k = fmt_res(&r);
                    let mut c2 = c.clone();
                    k += fmt_res(&tree.eval_with_context_mut(&mut c2));
                    if let Some(l) = &lit {
                        // literal-rendered argument in the context that has only builtins
                        k += fmt_res(&eval_with_context(&format!("{}({})", name, l), &eb));
                    }
                    k
                });
                if let Err(p) = r {
                    st.violation(panic_violation(
                        "panic-in-builtin",
                        json!({"builtin": name, "argument": arg.to_json()}),
                        &p,
                        format!("{}    let _ = eval_with_context({:?}, &c);\n", ctx_src(&[("x", arg)]), format!("{}(x)", name)),
                    ));
                }
            }
        }
        st
    })
}

// (d) operators × pool²
fn part_operators() -> Stats {
    let pool = pool();
    let n = pool.len();
    par_chunks(n as u64, 1, |r| {
        let mut st = Stats::new();
        for i in r {
            let a = &pool[i as usize];
            for b in &pool {
                let c = ctx_with(&[("x", a), ("y", b)]);
                let mut srcs: Vec<String> = BINOPS.iter().map(|o| format!("x {} y", o.sym())).collect();
                srcs.extend(ASSIGN_BINOPS.iter().map(|o| format!("x {}= y", o.sym())));
                srcs.push("x = y".into());
                srcs.extend(UNOPS.iter().map(|o| format!("{}x", o.sym())));
                srcs.push("(x, y)".into());
                srcs.push("x; y".into());
                for src in srcs {
                    trace(json!({"source": src, "x": a.to_json(), "y": b.to_json()}));
                    st.evaluations += 1;
                    st.count("d/operator-applications");
                    let r = guarded(|| {
                        let mut c2 = c.clone();
                        fmt_res(&eval_with_context(&src, &c)) + fmt_res(&eval_with_context_mut(&src, &mut c2)) + format!("{:?}", c2).len()
                    });
                    if let Err(p) = r {
                        st.violation(panic_violation(
                            "panic-in-operator",
                            json!({"source": src, "x": a.to_json(), "y": b.to_json()}),
                            &p,
                            format!("{}    let _ = eval_with_context_mut({:?}, &mut c);\n", ctx_src(&[("x", a), ("y", b)]), src),
                        ));
                    }
                }
            }
        }
        st
    })
}

// (e) pumped families, run in child processes on the child's main thread

pub fn families() -> Vec<(&'static str, fn(usize) -> String)> {
    fn rep(s: &str, n: usize) -> String {
        s.repeat(n)
    }
    vec![
        ("-^n 1", |n| format!("{}1", rep("-", n - 1))),
        ("!^n true", |n| format!("{}true", rep("!", n - 4))),
        ("(^k 1 )^k", |n| format!("{}1{}", rep("(", (n - 1) / 2), rep(")", (n - 1) / 2))),
        ("(^n", |n| rep("(", n)),
        (")^n", |n| rep(")", n)),
        ("(1+)^k 1", |n| format!("{}1", rep("1+", (n - 1) / 2))),
        ("(a=)^k 1", |n| format!("{}1", rep("a=", (n - 1) / 2))),
        ("(f )^k 1", |n| format!("{}1", rep("f ", (n - 1) / 2))),
        ("(1;)^k", |n| rep("1;", n / 2)),
        ("(1,)^k", |n| rep("1,", n / 2)),
        ("(-()^k 1 )^k", |n| format!("{}1{}", rep("-(", (n - 1) / 3), rep(")", (n - 1) / 3))),
        ("(1+()^k 1 )^k", |n| format!("{}1{}", rep("1+(", (n - 1) / 4), rep(")", (n - 1) / 4))),
        ("(1^)^k 1", |n| format!("{}1", rep("1^", (n - 1) / 2))),
        ("(1+1*1^1-)^k 1", |n| format!("{}1", rep("1+1*1^1-", (n - 1) / 8))),
        ("(1||1&&1==1+1*1^)^k 1", |n| format!("{}1", rep("1||1&&1==1+1*1^", (n - 1) / 15))),
        ("(1^1*1+1==1&&1||)^k 1", |n| format!("{}1", rep("1^1*1+1==1&&1||", (n - 1) / 15))),
        ("\" a^n", |n| format!("\"{}", rep("a", n - 1))),
        ("\" a^n \"", |n| format!("\"{}\"", rep("a", n - 2))),
        ("\" (\\\\)^k \"", |n| format!("\"{}\"", rep("\\\\", (n - 2) / 2))),
        ("/* a^n", |n| format!("/*{}", rep("a", n - 2))),
        ("(/**/)^k", |n| rep("/**/", n / 4)),
        ("// a^n", |n| format!("//{}", rep("a", n - 2))),
        ("😀^n", |n| rep("😀", n)),
        ("\" 😀^n \"", |n| format!("\"{}\"", rep("😀", n - 2))),
        ("1 e^n", |n| format!("1{}", rep("e", n - 1))),
        ("9^n", |n| rep("9", n)),
        ("0x f^n", |n| format!("0x{}", rep("f", n - 2))),
        (".^n", |n| rep(".", n)),
        ("0. 0^n 1", |n| format!("0.{}1", rep("0", n - 3))),
        ("1 0^n . e-5", |n| format!("1{}.e-5", rep("0", n - 5))),
        ("a^n", |n| rep("a", n)),
        ("&^n", |n| rep("&", n)),
        ("=^n", |n| rep("=", n)),
        ("<^n", |n| rep("<", n)),
        ("1 ' '^n", |n| format!("1{}", rep(" ", n - 1))),
        ("((1,)^k", |n| rep("(1,", n / 3)),
        ("(f()^k )^k", |n| format!("{}{}", rep("f(", n / 3), rep(")", n / 3))),
        ("(a+=)^k 1", |n| format!("{}1", rep("a+=", (n - 1) / 3))),
        ("(!()^k true )^k", |n| format!("{}true{}", rep("!(", (n - 4) / 3), rep(")", (n - 4) / 3))),
        ("(1==)^k 1", |n| format!("{}1", rep("1==", (n - 1) / 3))),
        ("(true&&)^k true", |n| format!("{}true", rep("true&&", (n - 4) / 6))),
        ("((,)^k", |n| rep("(,", n / 2)),
        ("(;()^k", |n| rep(";(", n / 2)),
        ("(min()^k 1 )^k", |n| format!("{}1{}", rep("min(", (n - 1) / 5), rep(")", (n - 1) / 5))),
        ("(str::from )^k 1", |n| format!("{}1", rep("str::from ", (n - 1) / 10))),
        ("(\"a\"+)^k \"a\"", |n| format!("{}\"a\"", rep("\"a\"+", (n - 3) / 4))),
        ("(a,)^k a with a tuple-valued a", |n| format!("{}a", rep("a,", (n - 1) / 2))),
        ("((a,a),)^k", |n| rep("(a,a),", n / 6)),
        ("a = (a,a); repeated", |n| rep("b=(a,a);", n / 8)),
        ("(-1-)^k 1", |n| format!("{}1", rep("-1-", (n - 1) / 3))),
        ("(1-(-)^k 1", |n| format!("{}1", rep("1--", (n - 1) / 3))),
    ]
}

pub const PUMP_LENGTHS: [usize; 5] = [4096, 4095, 2048, 1024, 257];

/// Child entry: `--child c01 <family> <length>`; exit 0 = returned normally, 101 = caught panic.
/// `--child c01-trace`: the quick-tier parts (a)-(d), (f), (g) on one thread with tracing on. Used by the
/// driver after the check itself ended abnormally; the last TRACE line is the input that kills the process.
pub fn trace_main() -> i32 {
    TRACE.store(true, std::sync::atomic::Ordering::Relaxed);
    rayon::ThreadPoolBuilder::new().num_threads(1).stack_size(8 << 20).build_global().ok();
    let t = Tier::Quick;
    let mut st = Stats::new();
    st.merge(part_foreign_escapes());
    st.merge(part_identifiers(3));
    st.merge(part_code_points(false));
    st.merge(part_chars(3));
    st.merge(part_tokens(4, 3));
    st.merge(part_operators());
    st.merge(part_builtins(t));
    println!("TRACE-DONE {} inputs executed without an abnormal exit", st.evaluations);
    0
}

pub fn child_main(args: &[String]) -> i32 {
    let fam: usize = args.get(1).and_then(|s| s.parse().ok()).unwrap_or(usize::MAX);
    let len: usize = args.get(2).and_then(|s| s.parse().ok()).unwrap_or(0);
    let fams = families();
    let Some((name, gen)) = fams.get(fam) else { return 2 };
    let src = gen(len);
    if src.chars().count() > 4096 {
        println!("CHILD-SKIP {} chars", src.chars().count());
        return 0;
    }
    let cx = contexts();
    match guarded(|| exercise(&src, &cx, true)) {
        Ok(n) => {
            println!("CHILD-OK {} {} {}", name, src.chars().count(), n);
            0
        },
        Err(p) => {
            println!("CHILD-PANIC {} at {}: {}", name, p.location, p.message);
            101
        },
    }
}

fn part_pumped() -> Stats {
    let fams = families();
    let mut work = Vec::new();
    for (i, _) in fams.iter().enumerate() {
        for l in PUMP_LENGTHS {
            work.push((i, l));
        }
    }
    let exe = std::env::current_exe().unwrap_or_else(|e| machinery_error(&format!("current_exe: {e}")));
    par_items(&work, |_, (i, l)| {
        let mut st = Stats::new();
        st.evaluations += 1;
        st.count("e/pumped-inputs");
        let out = std::process::Command::new(&exe)
            .args(["--child", "c01", &i.to_string(), &l.to_string()])
            .output();
        let out = match out {
            Ok(o) => o,
            Err(e) => machinery_error(&format!("cannot spawn child: {e}")),
        };
        let text = String::from_utf8_lossy(&out.stdout).to_string();
        let name = fams[*i].0;
        match out.status.code() {
            Some(0) => {
                if text.contains("CHILD-OK") {
                    st.count("e/children-returned-normally");
                } else if !text.contains("CHILD-SKIP") {
                    machinery_error(&format!("child for family {} gave no verdict: {}", name, text));
                }
            },
            Some(101) => st.violation(Violation {
                property: ID,
                kind: "panic-on-pumped-input".into(),
                input: json!({"family": name, "family_index": i, "length": l}),
                expected: "returns Ok or Err without unwinding".into(),
                actual: text.trim().to_string(),
                test: test_wrap("c01_replay", &format!("    // input: family `{}` pumped to {} characters: {:?}...\n", name, l, fams[*i].1(*l).chars().take(40).collect::<String>())),
            }),
            Some(2) => machinery_error("child: bad arguments"),
            other => st.violation(Violation {
                property: ID,
                kind: "abnormal-exit-on-pumped-input".into(),
                input: json!({"family": name, "family_index": i, "length": l}),
                expected: "returns Ok or Err without unwinding".into(),
                actual: format!("child process ended abnormally: exit code {:?} (signal; stack overflow or abort) {}", other, String::from_utf8_lossy(&out.stderr).chars().take(300).collect::<String>()),
                test: test_wrap("c01_replay", &format!("    // input: family `{}` pumped to {} characters, on a thread with the default 8 MiB main-thread stack\n", name, l)),
            }),
        }
        st
    })
}

/// (f) identifier shapes: every word over letters, `:`, `_`, `.`, `#`, a digit and multi-byte characters,
/// in every syntactic position an identifier can take (read, call with and without parentheses, call
/// without argument, assignment and op-assignment target, operand), and hexadecimal words around and
/// beyond the i64 range.
fn part_identifiers(max: usize) -> Stats {
    let alpha: Vec<char> = vec!['a', ':', '_', '.', '#', '0', 'é', '😀'];
    let mut words: Vec<String> = vec![];
    fn go(cur: &mut String, len: usize, alpha: &[char], max: usize, out: &mut Vec<String>) {
        if len > 0 {
            out.push(cur.clone());
        }
        if len == max {
            return;
        }
        for c in alpha {
            cur.push(*c);
            go(cur, len + 1, alpha, max, out);
            cur.pop();
        }
    }
    go(&mut String::new(), 0, &alpha, max, &mut words);
    for builtin in ["math::", "str::", "math::a", "str::é", "::", "a::", "::a", "math:", "str:"] {
        words.push(builtin.to_string());
    }
    for digits in [15usize, 16, 17, 18, 32, 33, 64, 200] {
        for d in ['f', 'F', '8', '0', '1'] {
            words.push(format!("0x{}", d.to_string().repeat(digits)));
            words.push(format!("0x1{}", d.to_string().repeat(digits)));
        }
    }
    par_items(&words, |_, w| {
        let cx = contexts();
        let mut st = Stats::new();
        for src in [
            w.clone(),
            format!("{w} 1"),
            format!("{w}(1)"),
            format!("{w}()"),
            format!("{w}(1, \"s\")"),
            format!("{w} = 1"),
            format!("{w} += 1"),
            format!("1 + {w}"),
            format!("{w} {w}"),
            format!("({w})"),
            format!("{w}; {w}(a)"),
        ] {
            check_source(&src, &cx, true, &mut st);
            st.states += 1;
            st.count("f/identifier-shape-sources");
        }
        st
    })
}

/// (g) code points: every character of the Basic Latin .. CJK-symbol range (0..=0x3000), the boundaries of
/// the UTF-8 encoding lengths and of the planes, in the positions a character can take: alone, as (part of)
/// an identifier that is assigned and read, next to operators, inside a string literal and inside a comment.
fn part_code_points(thorough: bool) -> Stats {
    let mut cps: Vec<u32> = (0..=0x3000).collect();
    for b in [0xd7ffu32, 0xe000, 0xfeff, 0xfffd, 0xffff, 0x10000, 0x1f600, 0x2fffe, 0xe0001, 0x10fffd, 0x10ffff] {
        cps.push(b);
    }
    if thorough {
        cps.extend(0x3001..=0xffff);
        cps.extend((0x10000..=0x10ffff).step_by(0x101));
    }
    let chars: Vec<char> = cps.into_iter().filter_map(char::from_u32).collect();
    let chunks: Vec<Vec<char>> = chars.chunks(256).map(|c| c.to_vec()).collect();
    par_items(&chunks, |_, chunk| {
        let cx = contexts();
        let mut st = Stats::new();
        for c in chunk {
            for src in [
                format!("{c}"),
                format!("a{c}b"),
                format!("{c} = 3; {c} + 1"),
                format!("1 + {c}"),
                format!("{c}(1)"),
                format!("\"{c}\""),
                format!("/*{c}*/1"),
                format!("1{c}2"),
            ] {
                check_source(&src, &cx, false, &mut st);
                st.states += 1;
                st.count("g/code-point-sources");
            }
        }
        st
    })
}

/// (h) escape sequences of other languages inside string literals, with hexadecimal payloads at every
/// boundary of the code space (surrogates, beyond U+10FFFF, empty, too long, not hexadecimal): today all of
/// them are errors; whatever they are, they must not panic.
fn part_foreign_escapes() -> Stats {
    let cx = contexts();
    let mut st = Stats::new();
    let payloads = ["", "0", "41", "7f", "80", "ff", "100", "d7ff", "d800", "dbff", "dc00", "dfff", "e000", "fffd", "ffff", "10000", "10ffff", "110000", "ffffff", "1000000", "ffffffff", "100000000", "fffffffffffffffff", "g", "-1", " 41", "4 1", "+41", "0x41", "é"];
    let mut bodies: Vec<String> = ["n", "r", "t", "0", "a", "b", "f", "v", "e", "'", "/", "N", "x", "u", "U", "101", "777", "8", "x4", "x41", "x414", "u41", "u0041", "u00410", "U00000041", "U0001F600", "N{DIGIT ONE}", "c", "\n", "\r\n", "xg", "u{", "u}", "u{}", "x{41}", "u(41)", "u[41]"].iter().map(|s| s.to_string()).collect();
    for p in payloads {
        bodies.push(format!("u{{{}}}", p));
        bodies.push(format!("u{{{}", p));
        bodies.push(format!("x{{{}}}", p));
        bodies.push(format!("u{}", p));
        bodies.push(format!("x{}", p));
        bodies.push(format!("U{}", p));
    }
    for b in &bodies {
        for src in [format!("\"\\{}\"", b), format!("\"a\\{}b\" + \"c\"", b), format!("len(\"\\{}\\{}\")", b, b), format!("x = \"\\\\\\{}\"", b)] {
            check_source(&src, &cx, true, &mut st);
            st.states += 1;
            st.count("h/foreign-escape-sources");
        }
    }
    st
}

pub fn run(cfg: &Cfg) -> Report {
    let t = cfg.tier;
    let mut stats = Stats::new();
    stats.merge(part_foreign_escapes());
    stats.merge(part_code_points(t == Tier::Thorough));
    stats.merge(part_tokens(t.pick(4, 6), t.pick(3, 4)));
    stats.merge(part_chars(t.pick(3, 5)));
    stats.merge(part_identifiers(t.pick(3, 4)));
    stats.merge(part_builtins(t));
    stats.merge(part_operators());
    stats.merge(part_pumped());
    stats.add("nontrivial-distinct", stats.get("a/token-sequences") + stats.get("b/char-strings") + stats.get("f/identifier-shape-sources") + stats.get("g/code-point-sources") + stats.get("h/foreign-escape-sources"));
    stats.sample(json!({"part": "a", "source": "( a += \"s\" , ! f"}));
    stats.sample(json!({"part": "b", "source": "1e-\n"}));
    stats.sample(json!({"part": "c", "call": "shl(x)", "x": RV::Tuple(vec![RV::Int(1), RV::Int(64)]).to_json()}));
    stats.sample(json!({"part": "d", "source": "x % y", "x": RV::Int(i64::MIN).to_json(), "y": RV::Int(-1).to_json()}));
    stats.sample(json!({"part": "e", "family": "(-()^k 1 )^k", "length": 4096}));
    let guards = vec![
        ("all pumped children gave a verdict".to_string(), stats.get("e/pumped-inputs") > 0),
        ("builtin matrix ran".to_string(), stats.get("c/builtin-calls") > 0),
    ];
    Report {
        property: ID,
        level: "model_checking",
        rule: format!("(a) depth-first search over every token sequence of length <= {} over a 20-token alphabet (incl. dangling `&`, `|`), a state is a token prefix; (b) every character string of length <= {} over a 27-character alphabet (digits, e, x, dot, quote, backslash, comment and operator characters, whitespace, multi-byte characters); (c) 49 builtins x the C10 argument matrix, with the argument bound and literal-rendered; (d) every operator, op-assign, prefix operator and sequence x pool^2; (e) {} pumped families x lengths {:?} in child processes; (f) identifier shapes: every word of length <= {} over `a : _ . # 0` and two multi-byte characters, namespace fragments (`math::`, `str:` ...) and hexadecimal words of 15..200 digits, each in 11 syntactic positions (read, call forms, assignment targets, operand, group); (g) code points: every character in 0..=0x3000 and the encoding-length and plane boundaries (thorough: the whole BMP and a stride through the other planes) alone, inside an identifier, assigned and read, next to an operator, called, inside a string literal, inside a comment and between digits; (h) escape sequences of other languages inside string literals (`\\n`, `\\x41`, `\\u{{...}}`, `\\U...`, octal ...) with payloads at every boundary of the code space (surrogates, beyond U+10FFFF, empty, over-long, not hexadecimal). Every input: tokenize, precompile, Display/Debug/clone/iterators of the tree, evaluation in 12 contexts (HashMapContext empty / identifiers bound to each type incl. extremes / total, failing and shadowing user functions / builtins off; EmptyContext; EmptyContextWithBuiltinFunctions) through shared and mutable forms, string-level forms, all typed wrappers on the shorter inputs, Display/Debug of every value and error. Both build profiles (overflow checks on, off). Non-trivial: every token sequence and character string (each enumerated once)", t.pick(4, 6), t.pick(3, 5), families().len(), PUMP_LENGTHS, t.pick(3, 4)),
        nontrivial_set: "counter:nontrivial-distinct",
        exhaustive: true,
        bound_completed: format!("token sequences {}, character strings {}, pumped inputs to 4096 characters", t.pick(4, 6), t.pick(3, 5)),
        assumptions: vec![
            "oracle: no unwind out of any call (panic hook records file:line), no abnormal child exit".into(),
            "deep inputs run on the child's main thread with the default 8 MiB stack, optimised profile".into(),
            "user functions in the contexts do not panic (as the property requires)".into(),
        ],
        stats,
        guards,
        extra: json!({}),
    }
}

pub fn replay(case: &J) -> i32 {
    let input = &case["input"];
    let mut st = Stats::new();
    let cx = contexts();
    if let Some(src) = input["source"].as_str() {
        if let (Some(a), Some(b)) = (RV::from_json(&input["x"]), RV::from_json(&input["y"])) {
            let c = ctx_with(&[("x", &a), ("y", &b)]);
            st.evaluations += 1;
            if let Err(p) = guarded(|| fmt_res(&eval_with_context_mut(src, &mut c.clone())) + fmt_res(&eval_with_context(src, &c))) {
                st.violation(panic_violation("panic-in-operator", input.clone(), &p, String::new()));
            }
        } else {
            check_source(src, &cx, true, &mut st);
        }
    } else if let Some(name) = input["builtin"].as_str() {
        let arg = RV::from_json(&input["argument"]).unwrap_or_else(|| machinery_error("C01 replay: bad argument"));
        let c = ctx_with(&[("x", &arg)]);
        st.evaluations += 1;
        if let Err(p) = guarded(|| fmt_res(&eval_with_context(&format!("{}(x)", name), &c))) {
            st.violation(panic_violation("panic-in-builtin", input.clone(), &p, String::new()));
        }
    } else if let Some(i) = input["family_index"].as_u64() {
        let l = input["length"].as_u64().unwrap_or(4096);
        let exe = std::env::current_exe().unwrap();
        let out = std::process::Command::new(exe).args(["--child", "c01", &i.to_string(), &l.to_string()]).output().unwrap();
        st.evaluations += 1;
        println!("{}", String::from_utf8_lossy(&out.stdout));
        if out.status.code() != Some(0) {
            st.violation(Violation {
                property: ID,
                kind: "panic-on-pumped-input".into(),
                input: input.clone(),
                expected: "returns normally".into(),
                actual: format!("exit {:?}", out.status.code()),
                test: String::new(),
            });
        }
    } else {
        machinery_error("C01 replay: unknown case shape");
    }
    super::replay_verdict(ID, &st)
}
