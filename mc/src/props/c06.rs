//! C06 — literals denote exactly their value.

use super::common::*;
use crate::engine::*;
use crate::refmodel::lexer::*;
use crate::refmodel::value::{quote, RV};
use evalexpr::build_operator_tree;
use serde_json::{json, Value as J};

const ID: &str = "C06";

fn tree_of(src: &str) -> Result<Result<ENode, EErr>, PanicInfo> {
    guarded(|| build_operator_tree::<evalexpr::DefaultNumericTypes>(src))
}

fn viol(kind: &str, input: J, expected: String, actual: String, src: &str) -> Violation {
    Violation {
        property: ID,
        kind: kind.into(),
        input,
        expected,
        actual,
        test: test_wrap(
            "c06_replay",
            &format!(
                "    let src = {:?};\n    panic!(\"tree {{:?}} / value {{:?}}\", build_operator_tree::<DefaultNumericTypes>(src), eval(src));\n",
                src
            ),
        ),
    }
}

/// Compares the literal/identifier leaves of the real tree of `src` with the reference token stream.
/// `kind` labels violations; returns whether the real tree exists.
fn check_against_lexer(src: &str, kind: &str, st: &mut Stats) {
    st.evaluations += 1;
    let reference = lex(src);
    let real = match tree_of(src) {
        Ok(r) => r,
        Err(p) => {
            st.violation(viol("panic", json!({"source": src}), "Ok or Err".into(), format!("panic at {}: {}", p.location, p.message), src));
            return;
        },
    };
    match (&reference, &real) {
        (Err(faults), Ok(t)) => st.violation(viol(
            kind,
            json!({"source": src}),
            format!("an error (reference lexer: {:?})", faults),
            format!("precompiled: {}", t),
            src,
        )),
        (Err(_), Err(_)) => st.count("faulty-source-rejected"),
        (Ok(toks), Err(e)) => {
            if is_lexical_error(e) {
                st.violation(viol(
                    kind,
                    json!({"source": src}),
                    format!("tokens {:?}", toks.iter().map(|t| t.show()).collect::<Vec<_>>()),
                    format!("lexical error {:?}", e),
                    src,
                ));
            } else {
                st.count("lexes-but-not-an-expression");
            }
        },
        (Ok(toks), Ok(t)) => {
            let want: Vec<Leaf> = toks.iter().filter_map(|t| t.leaf()).collect();
            let mut got = Vec::new();
            real_leaves(t, &mut got);
            st.count("token-streams-compared");
            if want.len() != got.len() || !want.iter().zip(&got).all(|(a, b)| a.same(b)) {
                // position-wise mismatches (only when the streams have equal length), for the known-finding matcher
                let mism: Vec<[String; 2]> = if want.len() == got.len() {
                    want.iter().zip(&got).filter(|(a, b)| !a.same(b)).map(|(a, b)| [a.show(), b.show()]).collect()
                } else {
                    vec![]
                };
                st.violation(viol(
                    kind,
                    json!({"source": src, "leaf_mismatches": mism}),
                    format!("leaves {:?}", want.iter().map(|l| l.show()).collect::<Vec<_>>()),
                    format!("leaves {:?}", got.iter().map(|l| l.show()).collect::<Vec<_>>()),
                    src,
                ));
            }
        },
    }
}

/// eval(src) must be exactly `want`.
fn check_value(src: &str, want: &RV, kind: &str, input: J, st: &mut Stats) {
    st.evaluations += 1;
    match guarded(|| evalexpr::eval(src)) {
        Err(p) => st.violation(viol("panic", input, want.key(), format!("panic at {}: {}", p.location, p.message), src)),
        Ok(Ok(v)) if RV::from_ev(&v).bits_eq(want) => {},
        Ok(other) => st.violation(viol(kind, input, want.key(), format!("{:?}", other), src)),
    }
}

fn all_strings(alpha: &[char], max: usize, f: &mut dyn FnMut(&str)) {
    fn go(alpha: &[char], max: usize, cur: &mut String, f: &mut dyn FnMut(&str)) {
        f(cur);
        if cur.chars().count() == max {
            return;
        }
        for c in alpha {
            cur.push(*c);
            go(alpha, max, cur, f);
            cur.pop();
        }
    }
    go(alpha, max, &mut String::new(), f);
}

/// All strings of length <= max, parallel over the first character.
fn par_strings(alpha: &[char], max: usize, f: impl Fn(&str, &mut Stats) + Sync) -> Stats {
    let firsts: Vec<Option<char>> = std::iter::once(None).chain(alpha.iter().map(|c| Some(*c))).collect();
    par_items(&firsts, |_, first| {
        let mut st = Stats::new();
        match first {
            None => f("", &mut st),
            Some(c) => {
                if max >= 1 {
                    all_strings(alpha, max - 1, &mut |tail| {
                        let mut s = String::new();
                        s.push(*c);
                        s.push_str(tail);
                        f(&s, &mut st);
                    });
                }
            },
        }
        st
    })
}

// (a) quoted strings
fn part_strings(max: usize) -> Stats {
    let alpha: Vec<char> = vec!['a', '"', '\\', '/', '*', '+', '=', '(', ';', ' ', '\n', '\t', 'ä', '😀', 'e', '1'];
    let mut st = par_strings(&alpha, max, |t, st| {
        let q = quote(t);
        let want = RV::Str(t.to_string());
        st.count("a/strings");
        if t.contains(['"', '\\', '/', '*']) {
            st.count("nontrivial-distinct");
        }
        check_value(&q, &want, "string-literal", json!({"text": t, "source": q}), st);
        // embedded between other tokens
        let s2 = format!("{}+{}", q, q);
        check_value(&s2, &RV::Str(format!("{}{}", t, t)), "string-literal", json!({"text": t, "source": s2}), st);
        let s3 = format!("x={};x", q);
        check_value(&s3, &want, "string-literal", json!({"text": t, "source": s3}), st);
        let s4 = format!("str::from {}", q);
        check_value(&s4, &want, "string-literal", json!({"text": t, "source": s4}), st);
        let s5 = format!("({},{})", q, q);
        check_value(&s5, &RV::Tuple(vec![want.clone(), want.clone()]), "string-literal", json!({"text": t, "source": s5}), st);
    });
    st.add("a/max-length", max as u64);
    st
}

// (b) raw sources starting with a quote
fn part_raw(max: usize) -> Stats {
    let alpha: Vec<char> = vec!['"', '\\', 'a', 'n', '/', '*'];
    let mut st = par_strings(&alpha, max, |w, st| {
        let src = format!("\"{}", w);
        st.count("b/raw-sources");
        st.count("nontrivial-distinct");
        check_against_lexer(&src, "raw-string-source", st);
    });
    st.add("b/max-length", max as u64);
    st
}

// (c) integers
fn part_ints(dense: u64) -> Stats {
    let mut st = par_chunks(dense, 4096, |r| {
        let mut st = Stats::new();
        for n in r {
            let n = n as i64;
            for src in [format!("{}", n), format!("0x{:x}", n), format!("0x{:X}", n), format!("00{}", n), format!("0x00{:x}", n)] {
                st.count("c/int-literals");
                check_value(&src, &RV::Int(n), "int-literal", json!({"n": n, "source": src}), &mut st);
            }
            st.count("nontrivial-distinct");
        }
        st
    });
    // boundaries: 2^k + d and 10^k + d inside [0, 2^63)
    let mut cands: Vec<i128> = Vec::new();
    for k in 0..=63 {
        for d in -2i128..=2 {
            cands.push((1i128 << k) + d);
        }
    }
    let mut p = 1i128;
    for _ in 0..=19 {
        for d in -2i128..=2 {
            cands.push(p + d);
        }
        p *= 10;
    }
    for c in cands {
        if c < 0 || c > i64::MAX as i128 {
            continue;
        }
        let n = c as i64;
        for src in [format!("{}", n), format!("0x{:x}", n), format!("0x{:X}", n)] {
            st.count("c/int-literals");
            check_value(&src, &RV::Int(n), "int-literal", json!({"n": n, "source": src}), &mut st);
            // embedded without spaces
            for (emb, want) in [
                (format!("({})", src), RV::Int(n)),
                (format!("{},{}", src, src), RV::Tuple(vec![RV::Int(n), RV::Int(n)])),
                (format!("x={};x", src), RV::Int(n)),
                (format!("{}-{}", src, src), RV::Int(0)),
            ] {
                check_value(&emb, &want, "int-literal", json!({"n": n, "source": emb}), &mut st);
            }
        }
        st.count("nontrivial-distinct");
    }
    st
}

// (d1) every string over the numeric alphabet: token streams
fn part_numeric_words(max: usize) -> Stats {
    let alpha: Vec<char> = vec!['0', '1', '5', '9', '.', 'e', 'E', '+', '-', 'x'];
    let mut st = par_strings(&alpha, max, |w, st| {
        st.count("d/numeric-alphabet-strings");
        if let Ok(toks) = lex(w) {
            if toks.iter().any(|t| matches!(t, LTok::Float(_))) {
                st.count("nontrivial-distinct");
                st.count("d/with-float-token");
            }
            // digit strings beyond the i64 range are not claimed
            if word_runs(w).iter().any(|r| classify_word(r) == WordClass::HugeInt) {
                st.count("d/skipped-huge-int");
                return;
            }
        }
        check_against_lexer(w, "numeric-token-assembly", st);
        // a single float token must also evaluate to exactly that double
        if let Ok(toks) = lex(w) {
            if let [LTok::Float(f)] = toks.as_slice() {
                check_value(w, &RV::Float(*f), "float-literal", json!({"source": w}), st);
            }
        }
    });
    st.add("d/max-length", max as u64);
    st
}

fn word_runs(s: &str) -> Vec<String> {
    s.split(['+', '-']).filter(|p| !p.is_empty()).map(|p| p.to_string()).collect()
}

/// Pool of doubles: powers of two and ten with neighbours, subnormals, hard rounding cases, extremes.
fn double_pool(thorough: bool) -> Vec<f64> {
    let mut v: Vec<f64> = Vec::new();
    let step = if thorough { 1 } else { 7 };
    let mut e = -1074i32;
    while e <= 1023 {
        let x = 2f64.powi(e);
        if x > 0.0 && x.is_finite() {
            v.push(x);
            v.push(f64::from_bits(x.to_bits() + 1));
            if x.to_bits() > 0 {
                v.push(f64::from_bits(x.to_bits() - 1));
            }
            v.push(x * 1.5);
        }
        e += step;
    }
    let mut k = -323i32;
    while k <= 308 {
        if let Ok(x) = format!("1e{}", k).parse::<f64>() {
            v.push(x);
            v.push(f64::from_bits(x.to_bits() + 1));
            v.push(x * 3.0);
        }
        k += step;
    }
    v.extend([
        0.0,
        0.1,
        0.2,
        0.3,
        1.0 / 3.0,
        2.0 / 3.0,
        f64::MAX,
        f64::MIN_POSITIVE,
        5e-324,
        2.2250738585072011e-308,
        2.2250738585072014e-308,
        9007199254740993.0,
        9007199254740992.0,
        9223372036854775808.0,
        1.7976931348623157e308,
        4.35,
        0.000001,
        123456789.125,
        1e21,
        1e22,
        1e23,
        8.41e21,
        5e-324 * 3.0,
        6.02214076e23,
        1.5,
        2.5,
        1e15,
        1e16,
        1e17,
    ]);
    v.retain(|x| x.is_finite() && *x >= 0.0);
    v.sort_by(|a, b| a.partial_cmp(b).unwrap());
    v.dedup_by(|a, b| a.to_bits() == b.to_bits());
    v
}

fn renderings(x: f64) -> Vec<String> {
    let mut out = Vec::new();
    let shortest = format!("{:?}", x);
    out.push(shortest.clone());
    let e = format!("{:e}", x);
    out.push(e.clone());
    if let Some((m, ex)) = e.split_once('e') {
        if !ex.starts_with('-') {
            out.push(format!("{}e+{}", m, ex));
        }
        if !m.contains('.') {
            out.push(format!("{}.e{}", m, ex));
            out.push(format!("{}.0e{}", m, ex));
        }
    }
    // the upper-case exponent marker (Rust's `{:E}`), unsigned and with either sign
    let up = format!("{:E}", x);
    out.push(up.clone());
    if let Some((m, ex)) = up.split_once('E') {
        if !ex.starts_with('-') {
            out.push(format!("{}E+{}", m, ex));
        }
    }
    // long decimal expansions (far more digits than needed): the nearest double must still be x
    out.push(format!("{:.40e}", x));
    if x >= 1e-5 && x < 1e15 {
        out.push(format!("{:.45}", x));
    }
    let fixed = format!("{}", x);
    if fixed.len() <= 400 {
        if fixed.contains('.') {
            out.push(fixed.clone());
            if let Some(rest) = fixed.strip_prefix("0.") {
                out.push(format!(".{}", rest));
            }
            out.push(format!("{}0", fixed));
        } else {
            out.push(format!("{}.", fixed));
            out.push(format!("{}.0", fixed));
        }
    }
    out.sort();
    out.dedup();
    out
}

// (d2) double pool × renderings × embeddings
fn part_doubles(thorough: bool) -> Stats {
    let pool = double_pool(thorough);
    let n = pool.len();
    let mut st = par_chunks(n as u64, 32, |r| {
        let mut st = Stats::new();
        for i in r {
            let x = pool[i as usize];
            for lit in renderings(x) {
                // the rendering itself must denote x (sanity of the harness: Rust's own parser is the trusted conversion)
                let parsed: f64 = match lit.parse() {
                    Ok(p) => p,
                    Err(_) => continue,
                };
                if parsed.to_bits() != x.to_bits() {
                    continue;
                }
                // a rendering without '.', 'e' is an integer literal, not a float literal
                if !lit.contains(['.', 'e']) {
                    continue;
                }
                st.count("d/double-renderings");
                st.count("nontrivial-distinct");
                let inp = |s: &str| json!({"double_bits": format!("{:016x}", x.to_bits()), "literal": lit, "source": s});
                check_value(&lit, &RV::Float(x), "float-literal", inp(&lit), &mut st);
                let fx = RV::Float(x);
                for (emb, want) in [
                    (format!("({})", lit), fx.clone()),
                    (format!("{},{}", lit, lit), RV::Tuple(vec![fx.clone(), fx.clone()])),
                    (format!("x={};x", lit), fx.clone()),
                    (format!("-{}", lit), RV::Float(-x)),
                    (format!("{}-{}", lit, lit), RV::Float(x - x)),
                    (format!("{}+{}", lit, lit), RV::Float(x + x)),
                    (format!("0-{}", lit), RV::Float(0.0 - x)),
                    (format!("{}*1", lit), RV::Float(x * 1.0)),
                    (format!("{}//c\n", lit), fx.clone()),
                    (format!("/**/{}/**/", lit), fx.clone()),
                ] {
                    check_value(&emb, &want, "float-literal-embedded", inp(&emb), &mut st);
                }
                // as the leaf after an identifier and a sign: `a-L` is a subtraction, never a literal
                check_against_lexer(&format!("a-{}", lit), "float-literal-embedded", &mut st);
                check_against_lexer(&format!("0x1e-{}", lit), "float-literal-embedded", &mut st);
            }
        }
        st
    });
    st.add("d/double-pool", n as u64);
    st
}

// (e) words over a 22-character alphabet
fn part_words(max: usize) -> Stats {
    let alpha: Vec<char> = vec![
        'a', 'e', 'E', 'x', 't', 'r', 'u', 'f', 'n', 'i', '_', '.', ':', '0', '1', '9', 'ä', '#', '$', '\'', 'l', 's',
    ];
    let mut st = par_strings(&alpha, max, |w, st| check_word(w, st));
    // keyword-like words in every letter case: only the exact lower-case spellings `true` and `false` are
    // booleans; every other casing is an identifier. Number-like words in every letter case follow the
    // reference classifier (the words inf / infinity / nan are the known finding F10).
    for base in ["true", "false", "inf", "nan", "infinity", "0x1f", "1e5", "0b1", "null", "none", "e", "x"] {
        let letters: Vec<usize> = base.char_indices().filter(|(_, c)| c.is_ascii_alphabetic()).map(|(i, _)| i).collect();
        for mask in 0..(1u32 << letters.len()) {
            let mut w: Vec<char> = base.chars().collect();
            for (k, i) in letters.iter().enumerate() {
                if mask >> k & 1 == 1 {
                    w[*i] = w[*i].to_ascii_uppercase();
                }
            }
            let w: String = w.into_iter().collect();
            check_word(&w, &mut st);
            st.count("e/letter-case-variants");
        }
    }
    st.add("e/max-length", max as u64);
    st
}

fn check_word(w: &str, st: &mut Stats) {
    {
        if w.is_empty() {
            return;
        }
        st.count("e/words");
        st.evaluations += 1;
        let class = classify_word(w);
        if class == WordClass::HugeInt {
            return;
        }
        let want = match &class {
            WordClass::Int(i) => Leaf::Const(RV::Int(*i)),
            WordClass::Float(f) => Leaf::Const(RV::Float(*f)),
            WordClass::Bool(b) => Leaf::Const(RV::Bool(*b)),
            _ => Leaf::Ident(w.to_string()),
        };
        if !matches!(class, WordClass::Ident) {
            st.count("nontrivial-distinct");
        }
        let got = match tree_of(w) {
            Err(p) => {
                st.violation(viol("panic", json!({"word": w}), want.show(), format!("panic at {}: {}", p.location, p.message), w));
                return;
            },
            Ok(Err(e)) => {
                st.violation(viol("word-class", json!({"word": w}), want.show(), format!("Err({:?})", e), w));
                return;
            },
            Ok(Ok(t)) => {
                let mut l = Vec::new();
                real_leaves(&t, &mut l);
                l
            },
        };
        let expected = match &want {
            Leaf::Ident(_) => format!("identifier {}", w),
            Leaf::Const(v) => format!("literal {}", v.key()),
        };
        if got.len() != 1 || !got[0].same(&want) {
            st.violation(viol(
                "word-class",
                json!({"word": w}),
                expected,
                format!("{:?}", got.iter().map(|l| l.show()).collect::<Vec<_>>()),
                w,
            ));
        }
    }
}

/// Character classes and token kinds at the two places where the tokenizer special-cases: (1) the character
/// after a backslash in a string literal — only `\\` and `\"` are escapes, every other character is an
/// error; every character in 0..=0x3000 and some beyond, alone and inside a longer literal; (2) what follows
/// `<mantissa>e` and a sign — only a digit word joins into a float, anything else (a string literal, a
/// group, an identifier, a float, a hex word, a space) leaves three separate tokens.
fn part_special_positions() -> Stats {
    let mut st = Stats::new();
    let mut cps: Vec<u32> = (0..=0x3000).collect();
    cps.extend([0xfeff, 0xfffd, 0x1f600, 0x10ffff]);
    for c in cps.into_iter().filter_map(char::from_u32) {
        for src in [format!("\"\\{}\"", c), format!("\"a\\{}b\" + \"c\"", c), format!("\"\\\\\\{}\"", c)] {
            check_against_lexer(&src, "escape-sequence", &mut st);
            st.count("g/escape-sources");
        }
    }
    // every character as the *content* of a string literal (unescaped), alone and between letters: the value is
    // exactly that text, whatever the character is (zero-width, bidirectional controls, byte order mark ...)
    let mut cps2: Vec<u32> = (0..=0x3000).collect();
    cps2.extend([0xfeff, 0xfffd, 0xe000, 0x1f600, 0xe0001, 0x10ffff]);
    for c in cps2.into_iter().filter_map(char::from_u32) {
        if c == '"' || c == '\\' {
            continue;
        }
        for text in [format!("{c}"), format!("a{c}b"), format!("{c}{c} {c}")] {
            let src = format!("\"{}\"", text);
            check_value(&src, &RV::Str(text.clone()), "string-literal", json!({"source": src, "text": text}), &mut st);
            let emb = format!("len(\"{}\" + \"z\") + 0 * len(\"{}\")", text, text);
            let _ = emb;
            st.count("g/string-content-characters");
        }
    }
    for mantissa in ["1", "2.5", ".5", "1."] {
        for e in ["e", "E"] {
            for sign in ["+", "-"] {
                for tail in ["\"3\"", "\"10\"", "(3)", " 3", "a", "3.", "3.5", "0x3", "3e2", "3a", "", "-3", "+3", "true", "\"\"", "3 ", "3)", "03", "3_"] {
                    for (pre, post) in [("", ""), ("a - ", ""), ("(", ")"), ("", " + 1")] {
                        let src = format!("{pre}{mantissa}{e}{sign}{tail}{post}");
                        check_against_lexer(&src, "numeric-token-assembly", &mut st);
                        st.count("g/exponent-tail-sources");
                    }
                }
            }
        }
    }
    st
}

/// `0x` words around the signed 64-bit range and at every written length: a value below 2^63 denotes that
/// integer however many leading zeros it is written with (0..=24 zeros; the written length is not the
/// value), in either letter case; a value of 2^63 or more (2^63 + d, 2^64 - 1, 2^64 + d, 17 and more
/// significant digits) is not a literal "within the signed 64-bit range", so the word is an identifier —
/// alone and embedded between other tokens without spaces.
fn part_hex_range() -> Stats {
    let mut st = Stats::new();
    let mut inside: Vec<u128> = vec![0, 1, 9, 10, 15, 16, 255, 256, 0xabcdef, 0x7fff_ffff, 0x8000_0000, 0xffff_ffff, 0x1_0000_0000];
    for k in [15u32, 16, 31, 32, 47, 48, 55, 56, 59, 60, 61, 62] {
        for d in [-1i128, 0, 1] {
            inside.push(((1i128 << k) + d) as u128);
        }
    }
    for d in 0..=3u128 {
        inside.push((1u128 << 63) - 1 - d);
    }
    let mut outside: Vec<u128> = Vec::new();
    for d in 0..=3u128 {
        outside.push((1u128 << 63) + d);
        outside.push((1u128 << 64) - 1 - d);
        outside.push((1u128 << 64) + d);
    }
    outside.extend([0x8000_0000_0000_0001u128 << 4, 0xffff_ffff_ffff_ffffu128 << 8, 1u128 << 68, (1u128 << 100) + 5, 0xdead_beef_dead_beef_u128, 0x1_dead_beef_dead_beef_u128]);
    for zeros in 0..=24usize {
        let z = "0".repeat(zeros);
        for &n in &inside {
            for digits in [format!("{:x}", n), format!("{:X}", n)] {
                let w = format!("0x{}{}", z, digits);
                st.count("h/in-range-words");
                st.count("nontrivial-distinct");
                check_word(&w, &mut st);
                check_value(&w, &RV::Int(n as i64), "hex-literal-in-range", json!({"word": w, "n": n as i64}), &mut st);
                for emb in [format!("({})", w), format!("{}-{}", w, w), format!("x={};x", w), format!("{},1", w)] {
                    check_against_lexer(&emb, "hex-literal-in-range/embedded", &mut st);
                }
            }
        }
        for &n in &outside {
            for digits in [format!("{:x}", n), format!("{:X}", n)] {
                let w = format!("0x{}{}", z, digits);
                st.count("h/out-of-range-words");
                st.count("nontrivial-distinct");
                check_word(&w, &mut st);
                // as an identifier it reads the variable of that name
                st.evaluations += 1;
                let mut c = evalexpr::HashMapContext::<evalexpr::DefaultNumericTypes>::new();
                use evalexpr::ContextWithMutableVariables;
                c.set_value(w.clone(), evalexpr::Value::Int(77)).unwrap();
                match guarded(|| evalexpr::eval_with_context(&format!("{}+1", w), &c)) {
                    Ok(Ok(evalexpr::Value::Int(78))) => {},
                    Ok(other) => st.violation(viol("hex-word-out-of-range", json!({"word": w}), format!("identifier {} (bound to 77: `{}+1` is 78)", w, w), format!("{:?}", other), &w)),
                    Err(p) => st.violation(viol("panic", json!({"word": w}), "Ok or Err".into(), format!("panic at {}: {}", p.location, p.message), &w)),
                }
                for emb in [format!("({})", w), format!("1-{}", w), format!("{}=1", w)] {
                    check_against_lexer(&emb, "hex-word-out-of-range/embedded", &mut st);
                }
            }
        }
    }
    st
}

/// Long literals: strings, identifiers, digit strings and mantissas of every size in `scale::sizes`.
fn part_scaling(thorough: bool) -> Stats {
    let mut st = Stats::new();
    let hostile: Vec<char> = vec!['a', '"', '\\', '/', '*', ' ', '\n', 'ä', '😀', '=', ';', '('];
    for n in super::scale::sizes(thorough) {
        // strings of n characters cycling through the hostile alphabet from every starting offset
        for off in 0..hostile.len() {
            let t: String = (0..n).map(|i| hostile[(i + off) % hostile.len()]).collect();
            let q = quote(&t);
            st.count("s/long-strings");
            st.count("nontrivial-distinct");
            check_value(&q, &RV::Str(t.clone()), "string-literal", json!({"text": t, "source": q}), &mut st);
            let s2 = format!("\"\"+{}+\"\"", q);
            check_value(&s2, &RV::Str(t.clone()), "string-literal", json!({"text": t, "source": s2}), &mut st);
        }
        // plain runs of n characters (no quote or backslash), alone, escaped at the end, and embedded
        for t in ["a".repeat(n), "ä".repeat(n), format!("{}\"", "b".repeat(n)), format!("{}\\{}", "c".repeat(n), "d".repeat(n))] {
            let q = quote(&t);
            st.count("s/long-strings");
            check_value(&q, &RV::Str(t.clone()), "string-literal", json!({"text": t, "source": q}), &mut st);
            let s3 = format!("{}+{}", q, q);
            check_value(&s3, &RV::Str(format!("{}{}", t, t)), "string-literal", json!({"text": t, "source": s3}), &mut st);
            let s4 = format!("x={} ;x", q);
            check_value(&s4, &RV::Str(t.clone()), "string-literal", json!({"text": t, "source": s4}), &mut st);
        }
        // identifiers of n characters (ASCII and not), alone and next to operators
        for word in ["x".repeat(n), "é".repeat(n), format!("{}9", "_".repeat(n)), format!("a{}", "0".repeat(n))] {
            st.count("s/long-identifiers");
            for src in [word.clone(), format!("{}+{}", word, word), format!("-{}", word), format!("({},{})", word, word)] {
                check_against_lexer(&src, "long-identifier", &mut st);
            }
        }
        // digit strings: n nines is an integer up to 18 digits; beyond the range the value is not claimed
        if n <= 18 {
            let d = "9".repeat(n);
            check_value(&d, &RV::Int(d.parse::<i64>().unwrap()), "int-literal", json!({"source": d}), &mut st);
            let z = format!("{}1", "0".repeat(n));
            check_value(&z, &RV::Int(1), "int-literal", json!({"source": z}), &mut st);
            let h = format!("0x{}", "f".repeat(n.min(15)));
            check_value(&h, &RV::Int(i64::from_str_radix(&"f".repeat(n.min(15)), 16).unwrap()), "int-literal", json!({"source": h}), &mut st);
        }
        // mantissas and exponents with n digits: the nearest double according to str::parse
        for lit in [
            format!("0.{}1", "0".repeat(n)),
            format!("1.{}1", "0".repeat(n)),
            format!("{}.5", "7".repeat(n)),
            format!("1{}.", "0".repeat(n)),
            format!("0.{}", "3".repeat(n)),
            format!("1e{}", n),
            format!("1e-{}", n),
            format!("{}e-{}", "9".repeat(n.min(300)), n),
            format!("0.{}e+{}", "1".repeat(n.min(300)), n.min(300)),
            format!("1e{}1", "0".repeat(n.min(30))),
        ] {
            let want: f64 = match lit.parse() {
                Ok(f) => f,
                Err(_) => continue,
            };
            if !want.is_finite() {
                continue;
            }
            st.count("s/long-float-literals");
            st.count("nontrivial-distinct");
            check_value(&lit, &RV::Float(want), "float-literal", json!({"source": lit}), &mut st);
            let emb = format!("{}-{}", lit, lit);
            check_value(&emb, &RV::Float(want - want), "float-literal-embedded", json!({"source": emb}), &mut st);
        }
    }
    st
}

pub fn run(cfg: &Cfg) -> Report {
    let t = cfg.tier;
    let mut stats = Stats::new();
    stats.merge(part_strings(t.pick(4, 6)));
    stats.merge(part_raw(t.pick(6, 9)));
    stats.merge(part_ints(t.pick(1 << 14, 1 << 17)));
    stats.merge(part_numeric_words(t.pick(6, 8)));
    stats.merge(part_doubles(t == Tier::Thorough));
    stats.merge(part_words(t.pick(3, 5)));
    stats.merge(part_scaling(t == Tier::Thorough));
    stats.merge(part_special_positions());
    stats.merge(part_hex_range());
    // longer float spellings that are known findings are reported through the same matcher
    for w in ["infinity", "Infinity", "INFINITY", "NaN", "Inf"] {
        let mut st = Stats::new();
        st.evaluations += 1;
        if let Ok(Ok(tree)) = tree_of(w) {
            let mut l = Vec::new();
            real_leaves(&tree, &mut l);
            if !(l.len() == 1 && l[0].same(&Leaf::Ident(w.to_string()))) {
                st.violation(viol("word-class", json!({"word": w}), format!("identifier {}", w), format!("{:?}", l.iter().map(|x| x.show()).collect::<Vec<_>>()), w));
            }
        }
        stats.merge(st);
    }
    for (src, note) in [
        ("\"a\\\"b\\\\c/*\"", "escapes and a comment opener inside a string"),
        ("5e-3-2e-3", "two scientific literals around a minus"),
        ("0x1e-3", "hex literal, minus, int"),
        ("a-1e+2", "identifier minus scientific literal"),
        (".5", "leading dot"),
        ("1.e5", "trailing dot with exponent"),
    ] {
        stats.sample(json!({"source": src, "note": note, "reference_tokens": lex(src).map(|t| t.iter().map(|x| x.show()).collect::<Vec<_>>()).map_err(|f| format!("{:?}", f)),
            "value": format!("{:?}", evalexpr::eval(src))}));
    }
    let guards = vec![
        ("faulty string sources were rejected and correct ones compared".to_string(),
            stats.get("faulty-source-rejected") > 0 && stats.get("token-streams-compared") > 0),
        ("float tokens occurred in the numeric-alphabet sweep".to_string(), stats.get("d/with-float-token") > 0),
        ("double renderings were checked".to_string(), stats.get("d/double-renderings") > 100),
    ];
    Report {
        property: ID,
        level: "exploration",
        rule: format!("(a) every text of length <= {} over a 16-character hostile alphabet, quoted by the reference escaper, alone and in 4 embeddings; (b) every raw source `\"`+w, |w| <= {} over {{\" \\ a n / *}}; (c) every integer below {} in decimal, hex (both digit cases) and with leading zeros, plus 2^k+d and 10^k+d (|d| <= 2) with embeddings; (d) every string of length <= {} over `0 1 5 9 . e E + - x` (token streams) and a pool of doubles (powers of two and ten with neighbours, subnormals, rounding-hard cases) x up to 11 renderings (incl. upper-case `E`, `E+`, `E-`) x 12 embeddings; (e) every word of length <= {} over a 22-character alphabet, and keyword- and number-like words (true, false, inf, nan, infinity, 0x1f, 1e5, ...) in every letter case; (g) special positions: every character in 0..=0x3000 as the content of a string literal and after a backslash inside a string literal (only `\\\\` and `\\\"` are escapes), and 19 kinds of tail after `<mantissa>e` and a sign (a string literal, a group, an identifier, a float, a hex word ... only a digit word joins); (h) `0x` words around the signed 64-bit range: 49 values below 2^63 (small, 2^k+d, 2^63-1-d) written with 0..=24 leading zeros in both digit cases denote that integer (alone and in 4 embeddings), 18 values of 2^63 and more (2^63+d, 2^64-1-d, 2^64+d, 17+ significant digits) with the same paddings are identifiers (read the variable of that name; 3 embeddings); (f) scaling families: strings, identifiers, digit strings, mantissas and exponents of n characters for n in 1..20 and up to 129 / 1..40 and up to 400. Oracle: reference lexer/classifier + str::parse. Non-trivial: strings containing quote/backslash/comment characters, raw sources, integers, strings with a float token, float renderings, words classified as literals; every text is enumerated once per part", t.pick(4, 6), t.pick(6, 9), t.pick(1u64 << 14, 1 << 17), t.pick(6, 8), t.pick(3, 5)),
        nontrivial_set: "counter:nontrivial-distinct",
        exhaustive: true,
        bound_completed: "all listed alphabets to the stated lengths".into(),
        assumptions: vec![
            "reference lexer and word classifier mc/src/refmodel/lexer.rs; Rust's str::parse::<f64> is the trusted correctly rounded conversion (what is checked is token assembly, classification and escaping)".into(),
            "not claimed: decimal digit strings >= 2^63, the prefix 0X, which error is reported for a faulty source (any error is accepted)".into(),
        ],
        stats,
        guards,
        extra: json!({}),
    }
}

pub fn replay(case: &J) -> i32 {
    let mut st = Stats::new();
    let input = &case["input"];
    let kind = case["kind"].as_str().unwrap_or("");
    if let Some(w) = input["word"].as_str() {
        st.merge({
            let mut s = Stats::new();
            s.evaluations = 1;
            let class = classify_word(w);
            let want = match &class {
                WordClass::Int(i) => Leaf::Const(RV::Int(*i)),
                WordClass::Float(f) => Leaf::Const(RV::Float(*f)),
                WordClass::Bool(b) => Leaf::Const(RV::Bool(*b)),
                _ => Leaf::Ident(w.to_string()),
            };
            let got = match tree_of(w) {
                Ok(Ok(t)) => {
                    let mut l = Vec::new();
                    real_leaves(&t, &mut l);
                    l
                },
                _ => vec![],
            };
            if got.len() != 1 || !got[0].same(&want) {
                s.violation(viol("word-class", json!({"word": w}), match &want { Leaf::Ident(_) => format!("identifier {}", w), Leaf::Const(v) => format!("literal {}", v.key()) }, format!("{:?}", got.iter().map(|l| l.show()).collect::<Vec<_>>()), w));
            }
            s
        });
    } else if let Some(src) = input["source"].as_str() {
        if kind == "raw-string-source" || kind == "numeric-token-assembly" || kind.ends_with("/embedded") || kind == "float-literal-embedded" && input["literal"].is_null() {
            check_against_lexer(src, kind, &mut st);
        } else {
            // value cases: recompute the expectation from the recorded expected key
            let want = case["expected"].as_str().unwrap_or("");
            st.evaluations = 1;
            let got = match guarded(|| evalexpr::eval(src)) {
                Ok(Ok(v)) => RV::from_ev(&v).key(),
                Ok(Err(e)) => format!("Err({:?})", e),
                Err(p) => format!("panic at {}", p.location),
            };
            if got != want {
                st.violation(viol(kind, input.clone(), want.into(), got, src));
            }
        }
    } else {
        machinery_error("C06 replay: no source or word");
    }
    super::replay_verdict(ID, &st)
}
