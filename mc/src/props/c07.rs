//! C07 — whitespace and comments never change meaning.
//! Token sequences × separator assignments; differential oracle against the single-space rendering;
//! admissibility of a rendering is decided by the reference lexer.

use super::common::*;
use crate::engine::*;
use crate::refmodel::lexer::*;
use evalexpr::build_operator_tree;
use serde_json::{json, Value as J};

const ID: &str = "C07";

pub fn token_alphabet() -> Vec<&'static str> {
    vec![
        "a", "b2", "1", "2.5", "0x1e", "1e", "\"3\"", "\"/*\"", "\"//\"", "\"c:\\\\\"", "true", "+", "-", "*", "/", "%", "^", "<", ">", "=", "!", "==", "!=", "<=", ">=",
        "&&", "||", "+=", "-=", "*=", "/=", "%=", "^=", "&&=", "||=", "(", ")", ",", ";",
    ]
}

/// The 25 code points with the Unicode White_Space property.
pub fn whitespace_chars() -> Vec<char> {
    let mut v: Vec<char> = vec!['\u{9}', '\u{A}', '\u{B}', '\u{C}', '\u{D}', ' ', '\u{85}', '\u{A0}', '\u{1680}'];
    for c in 0x2000..=0x200A {
        v.push(char::from_u32(c).unwrap());
    }
    v.extend(['\u{2028}', '\u{2029}', '\u{202F}', '\u{205F}', '\u{3000}']);
    v
}

pub fn full_menu() -> Vec<String> {
    let mut m: Vec<String> = whitespace_chars().into_iter().map(|c| c.to_string()).collect();
    for s in ["/**/", "/* x */", "/* * / */", "/*\n*/", "//c\n", "//\n", "/*é*/", "//日本\n", "/***/", " /**/ ", "/**//**/", "\n//\n", "/**/ //x\n", "  ", "\t\n", ""] {
        m.push(s.to_string());
    }
    m
}

pub fn core_menu(n: usize) -> Vec<String> {
    [" ", "", "/**/", "\n", "//\n"].iter().take(n).map(|s| s.to_string()).collect()
}

fn parse(src: &str) -> Result<Result<ENode, EErr>, PanicInfo> {
    guarded(|| build_operator_tree::<evalexpr::DefaultNumericTypes>(src))
}

fn render(toks: &[&str], seps: &[&str]) -> String {
    // seps.len() == toks.len() + 1: before the first, between, after the last
    let mut s = String::new();
    for (i, t) in toks.iter().enumerate() {
        s.push_str(seps[i]);
        s.push_str(t);
    }
    s.push_str(seps[toks.len()]);
    s
}

struct Base {
    toks: Vec<&'static str>,
    intended: Vec<LTok>,
    base_src: String,
    base_res: Result<ENode, EErr>,
}

fn compare(b: &Base, seps: &[&str], st: &mut Stats) {
    let src = render(&b.toks, seps);
    // admissible iff the reference lexer still sees the intended token sequence
    match lex(&src) {
        Ok(t) if same_tokens(&t, &b.intended) => {},
        _ => {
            st.count("inadmissible-renderings");
            return;
        },
    }
    st.evaluations += 1;
    if seps.iter().any(|s| s.contains('/')) {
        st.count("renderings-with-comments");
    }
    let mk = |kind: &str, actual: String| Violation {
        property: ID,
        kind: kind.into(),
        input: json!({"tokens": b.toks, "separators": seps, "source": src, "single_space_source": b.base_src}),
        expected: format!("same as the single-space rendering: {:?}", b.base_res),
        actual,
        test: test_wrap(
            "c07_replay",
            &format!(
                "    let a = build_operator_tree::<DefaultNumericTypes>({:?});\n    let b = build_operator_tree::<DefaultNumericTypes>({:?});\n    assert_eq!(a, b);\n",
                b.base_src, src
            ),
        ),
    };
    match parse(&src) {
        Err(p) => st.violation(mk("panic", format!("panic at {}: {}", p.location, p.message))),
        Ok(r) => {
            // equal by the library's own PartialEq and, independently of it, by the structural walk
            // through operator()/children() (a PartialEq that says "equal" too easily must not blind the oracle)
            let same_structure = match (&r, &b.base_res) {
                (Ok(x), Ok(y)) => crate::refmodel::ast::node_to_nt(x) == crate::refmodel::ast::node_to_nt(y),
                (Err(x), Err(y)) => format!("{:?}", x) == format!("{:?}", y),
                _ => false,
            };
            if r != b.base_res || !same_structure {
                st.violation(mk("separator-changes-meaning", format!("{:?}", r)));
            }
        },
    }
}

fn check_sequence(toks: &[&'static str], full: &[String], core: &[String], joint: bool, st: &mut Stats) {
    let base_src = toks.join(" ");
    let intended = match lex(&base_src) {
        Ok(t) => t,
        Err(_) => return,
    };
    if intended.len() != toks.len() {
        // cannot happen for this alphabet; guard against a harness slip
        st.count("harness/base-rendering-not-token-per-token");
        return;
    }
    let base_res = match parse(&base_src) {
        Ok(r) => r,
        Err(p) => {
            st.violation(Violation {
                property: ID,
                kind: "panic".into(),
                input: json!({"tokens": toks, "source": base_src}),
                expected: "Ok or Err".into(),
                actual: format!("panic at {}: {}", p.location, p.message),
                test: String::new(),
            });
            return;
        },
    };
    st.count("sequences");
    st.count(if base_res.is_ok() { "sequences/precompile" } else { "sequences/rejected" });
    let b = Base {
        toks: toks.to_vec(),
        intended,
        base_src,
        base_res,
    };
    let gaps = toks.len() + 1;
    // full menu on one gap at a time, the others cycling through the core menu
    for g in 0..gaps {
        for (mi, m) in full.iter().enumerate() {
            let seps: Vec<&str> = (0..gaps)
                .map(|k| {
                    if k == g {
                        m.as_str()
                    } else if k == 0 || k == gaps - 1 {
                        ""
                    } else {
                        core[(mi + k) % core.len()].as_str()
                    }
                })
                .collect();
            compare(&b, &seps, st);
            // and with plain single spaces elsewhere
            let seps2: Vec<&str> = (0..gaps).map(|k| if k == g { m.as_str() } else if k == 0 || k == gaps - 1 { "" } else { " " }).collect();
            compare(&b, &seps2, st);
        }
    }
    // all gaps jointly over the core menu
    if joint {
        let k = core.len();
        let total = k.pow(gaps as u32);
        for code in 0..total {
            let mut c = code;
            let seps: Vec<&str> = (0..gaps)
                .map(|_| {
                    let s = core[c % k].as_str();
                    c /= k;
                    s
                })
                .collect();
            compare(&b, &seps, st);
        }
    }
    // an unterminated block comment is an error wherever it starts
    for tail in [" /* x", "/*", " /* *", "/*/"] {
        let src = format!("{}{}", b.base_src, tail);
        // only where the reference lexer agrees that a block comment is left open (`/` + `/*` is a line comment)
        if !matches!(lex(&src), Err(f) if f.contains(&Fault::UnterminatedComment)) {
            continue;
        }
        st.evaluations += 1;
        st.count("unterminated-comment-cases");
        if let Ok(Ok(t)) = parse(&src) {
            st.violation(Violation {
                property: ID,
                kind: "unterminated-comment-accepted".into(),
                input: json!({"tokens": toks, "source": src}),
                expected: "an error".into(),
                actual: format!("precompiled: {}", t),
                test: test_wrap("c07_replay", &format!("    assert!(build_operator_tree::<DefaultNumericTypes>({:?}).is_err());\n", src)),
            });
        }
    }
}

/// Comment bodies over every character: for a handful of token sequences and every gap, line and block
/// comments whose body contains each character in 0..=0x3000 (and a few beyond) — alone, between letters,
/// directly before a `/`, directly before a `*` — must separate exactly like a space. (A line feed ends a
/// line comment; the reference lexer decides which renderings are admissible.)
fn comment_body_characters() -> Stats {
    let seqs: Vec<Vec<&'static str>> = vec![vec!["1", "+", "2"], vec!["a", "=", "b2"], vec!["(", "a", ")"], vec!["\"/*\"", "+", "\"//\""], vec!["2", "*", "a"], vec!["a", ";", "1"]];
    let mut cps: Vec<u32> = (0..=0x3000).collect();
    cps.extend([0xfeff, 0xfffd, 0x1f600, 0x10ffff]);
    let chars: Vec<char> = cps.into_iter().filter_map(char::from_u32).collect();
    let chunks: Vec<Vec<char>> = chars.chunks(128).map(|c| c.to_vec()).collect();
    par_items(&chunks, |_, chunk| {
        let mut st = Stats::new();
        for toks in &seqs {
            let base_src = toks.join(" ");
            let intended = match lex(&base_src) {
                Ok(t) => t,
                Err(_) => continue,
            };
            let base_res = match parse(&base_src) {
                Ok(r) => r,
                Err(_) => continue,
            };
            let b = Base { toks: toks.clone(), intended, base_src, base_res };
            let gaps = toks.len() + 1;
            for c in chunk {
                let menu = [
                    format!("//{c}\n"),
                    format!("//a{c}b\n"),
                    format!("// x{c}+ 1\n"),
                    format!("/*{c}*/"),
                    format!("/*a{c}b*/"),
                    format!("/* x{c}/ y */"),
                    format!("/* x{c}* y */"),
                    format!("/*{c}{c}*/"),
                ];
                for m in &menu {
                    for g in 0..gaps {
                        let seps: Vec<&str> = (0..gaps).map(|k| if k == g { m.as_str() } else if k == 0 || k == gaps - 1 { "" } else { " " }).collect();
                        compare(&b, &seps, &mut st);
                        st.count("comment-body-character-renderings");
                    }
                }
            }
        }
        st
    })
}

pub fn run(cfg: &Cfg) -> Report {
    let alpha = token_alphabet();
    let full = full_menu();
    let (max_len, core_n, joint_upto) = cfg.tier.pick((3usize, 4usize, 3usize), (4, 3, 4));
    let core = core_menu(core_n);
    let a = alpha.len();
    // work items: the first two tokens
    let mut prefixes: Vec<Vec<&'static str>> = vec![vec![]];
    for t in &alpha {
        prefixes.push(vec![t]);
    }
    for t in &alpha {
        for u in &alpha {
            prefixes.push(vec![t, u]);
        }
    }
    let mut stats = par_items(&prefixes, |_, p| {
        let mut st = Stats::new();
        // this prefix itself ...
        if p.len() < 2 {
            check_sequence(p, &full, &core, p.len() <= joint_upto, &mut st);
            return st;
        }
        // ... and all its extensions up to max_len
        fn ext(cur: &mut Vec<&'static str>, alpha: &[&'static str], max: usize, f: &mut dyn FnMut(&[&'static str])) {
            f(cur);
            if cur.len() == max {
                return;
            }
            for t in alpha {
                cur.push(t);
                ext(cur, alpha, max, f);
                cur.pop();
            }
        }
        let mut cur = p.clone();
        ext(&mut cur, &alpha, max_len, &mut |seq| {
            check_sequence(seq, &full, &core, seq.len() <= joint_upto, &mut st);
            st.distinct("nontrivial", &seq.join(" "));
        });
        st
    });
    // every comment body up to a length over a hostile alphabet, at every gap of a few fixed sequences
    let bodies = {
        let chars = ['*', '/', 'a', ' ', '\n', '"', '=', 'é', '😀'];
        let mut out: Vec<String> = vec![String::new()];
        let mut frontier = vec![String::new()];
        for _ in 0..cfg.tier.pick(4, 6) {
            let mut next = Vec::new();
            for b in &frontier {
                for c in chars {
                    let mut n = b.clone();
                    n.push(c);
                    next.push(n);
                }
            }
            out.extend(next.iter().cloned());
            frontier = next;
        }
        out
    };
    let fixed: Vec<Vec<&'static str>> = vec![vec!["1", "+", "2"], vec!["a", "b2"], vec!["(", "a", "=", "1", ")"], vec!["a", "/", "2.5"], vec!["\"/*\"", "==", "\"//\""]];
    let body_stats = par_chunks(bodies.len() as u64, 256, |r| {
        let mut st = Stats::new();
        for i in r {
            let body = &bodies[i as usize];
            let seps_menu = [format!("/*{}*/", body), format!("//{}\n", body), format!(" /*{}*/ ", body)];
            for toks in &fixed {
                let base_src = toks.join(" ");
                let intended = match lex(&base_src) {
                    Ok(t) => t,
                    Err(_) => continue,
                };
                let base_res = match parse(&base_src) {
                    Ok(r) => r,
                    Err(_) => continue,
                };
                let b = Base { toks: toks.clone(), intended, base_src, base_res };
                let gaps = toks.len() + 1;
                for g in 0..gaps {
                    for m in &seps_menu {
                        let seps: Vec<&str> = (0..gaps).map(|k| if k == g { m.as_str() } else if k == 0 || k == gaps - 1 { "" } else { " " }).collect();
                        compare(&b, &seps, &mut st);
                        st.count("comment-body-renderings");
                    }
                }
            }
        }
        st
    });
    stats.merge(body_stats);
    stats.merge(comment_body_characters());
    // scaling families: long token sequences, every gap taking its own separator from the full menu
    {
        let cycle: Vec<&'static str> = vec![
            "a", "+", "1", "*", "(", "b2", "-", "2.5", ")", ",", "\"/*\"", ";", "!", "true", "&&", "a", "<=", "1", "^", "-", "1", "&&=", "1e-3", "||=", "b2", "!=", "2e+2",
        ];
        // separators of growing length: long block and line comments, long whitespace runs
        let long_seps: Vec<String> = super::scale::sizes(cfg.tier == Tier::Thorough)
            .into_iter()
            .filter(|n| *n >= 8)
            .flat_map(|n| vec![format!("//{}\n", "c".repeat(n)), format!("/*{}*/", "é*".repeat(n / 2)), " ".repeat(n), format!("/*{}*/", "x ".repeat(n))])
            .collect();
        let mut st = Stats::new();
        for n in super::scale::sizes(cfg.tier == Tier::Thorough) {
            for off in [0usize, 5, 11] {
                let toks: Vec<&'static str> = (0..n).map(|i| cycle[(i + off) % cycle.len()]).collect();
                let base_src = toks.join(" ");
                let intended = match lex(&base_src) {
                    Ok(t) => t,
                    Err(_) => continue,
                };
                let base_res = match parse(&base_src) {
                    Ok(r) => r,
                    Err(_) => continue,
                };
                let b = Base { toks: toks.clone(), intended, base_src, base_res };
                for shift in 0..full.len() {
                    let seps: Vec<&str> = (0..=n).map(|g| full[(g * 7 + shift) % full.len()].as_str()).collect();
                    compare(&b, &seps, &mut st);
                }
                // a long separator in one gap at a time (first, middle, last inner gap), single spaces elsewhere
                if n >= 2 {
                    for ls in &long_seps {
                        for g in [1, n / 2, n - 1] {
                            let seps: Vec<&str> = (0..=n).map(|k| if k == g { ls.as_str() } else if k == 0 || k == n { "" } else { " " }).collect();
                            compare(&b, &seps, &mut st);
                        }
                    }
                }
                // leading whitespace runs of every length up to 130: shifts every later token's position
                if n >= 4 && n <= 12 {
                    for lead in 0..=130usize {
                        let pad = " ".repeat(lead);
                        let seps: Vec<&str> = (0..=n).map(|k| if k == 0 { pad.as_str() } else if k == n { "" } else { " " }).collect();
                        compare(&b, &seps, &mut st);
                    }
                }
                st.count("scaling-family-sequences");
            }
        }
        stats.merge(st);
    }
    for (toks, seps) in [
        (vec!["a", "b2"], vec!["", "/**/", ""]),
        (vec!["1", "<", "=", "2.5"], vec!["", " ", "/**/", "\u{2003}", ""]),
        (vec!["a", "/", "b2"], vec!["", "", "//\n", ""]),
    ] {
        let src = render(&toks, &seps);
        stats.sample(json!({"tokens": toks, "separators": seps, "source": src, "tree": format!("{:?}", build_operator_tree::<evalexpr::DefaultNumericTypes>(&src).map(|t| t.to_string()))}));
    }
    let guards = vec![
        ("renderings with comments as separators were compared".to_string(), stats.get("renderings-with-comments") > 1000),
        ("inadmissible renderings were recognised and skipped".to_string(), stats.get("inadmissible-renderings") > 0),
        ("sequences that precompile and sequences that are rejected were both covered".to_string(),
            stats.get("sequences/precompile") > 0 && stats.get("sequences/rejected") > 0),
        ("base renderings lex token per token".to_string(), stats.get("harness/base-rendering-not-token-per-token") == 0),
    ];
    Report {
        property: ID,
        level: "exploration",
        rule: format!("every token sequence of length <= {max_len} over a {a}-token alphabet (words, strings containing comment markers, every operator and punctuation token), well-formed or not; per sequence: each gap (incl. before the first and after the last token) takes each of {} separators (the 25 White_Space code points, block and line comments, mixtures, the empty separator) while the other gaps cycle through a core menu, plus all gaps jointly over the {core_n}-entry core menu for sequences of length <= {joint_upto}; a rendering is compared only if the reference lexer still reads the intended token sequence (so fusing renderings are skipped); plus 4 unterminated-comment tails per sequence; plus every comment body up to 4 (quick) / 6 (thorough) characters over `* / a space newline \" = é 😀` as a block and as a line comment at every gap of 5 fixed sequences; plus scaling families: token sequences of n tokens (n in 1..20 and up to 129 / 1..40 and up to 400) in which every gap takes its own separator from the full menu, in as many rotations as the menu has entries. Non-trivial = sequences of >= 2 tokens; distinct by token sequence Plus comment bodies over every character: for six token sequences and every gap, line and block comments whose body contains each character in 0..=0x3000 alone, between letters, directly before `/` and directly before `*`.", full.len()),
        nontrivial_set: "nontrivial",
        exhaustive: true,
        bound_completed: format!("token sequences of length {max_len}"),
        assumptions: vec![
            "oracle is differential: the single-space rendering of the same token sequence (equal trees, or equal errors)".into(),
            "admissibility of a rendering is decided by the reference lexer mc/src/refmodel/lexer.rs".into(),
            "lone `&` / `|` are not tokens and are left to C01/C12".into(),
        ],
        stats,
        guards,
        extra: json!({"separator_menu": full}),
    }
}

pub fn replay(case: &J) -> i32 {
    let input = &case["input"];
    let src = input["source"].as_str().unwrap_or_else(|| machinery_error("C07 replay: no source"));
    let mut st = Stats::new();
    st.evaluations = 1;
    if case["kind"].as_str() == Some("unterminated-comment-accepted") {
        if let Ok(Ok(t)) = parse(src) {
            st.violation(Violation {
                property: ID,
                kind: "unterminated-comment-accepted".into(),
                input: input.clone(),
                expected: "an error".into(),
                actual: format!("precompiled: {}", t),
                test: String::new(),
            });
        }
    } else {
        let base = input["single_space_source"].as_str().unwrap_or_else(|| machinery_error("C07 replay: no base source"));
        let a = parse(base);
        let b = parse(src);
        let same = match (&a, &b) {
            (Ok(x), Ok(y)) => x == y,
            _ => false,
        };
        if !same {
            st.violation(Violation {
                property: ID,
                kind: "separator-changes-meaning".into(),
                input: input.clone(),
                expected: format!("{:?}", a),
                actual: format!("{:?}", b),
                test: String::new(),
            });
        }
    }
    super::replay_verdict(ID, &st)
}
