//! One module per property.
pub mod common;
pub mod progs;
pub mod scale;
pub mod selftest;
pub mod c01;
pub mod c02;
pub mod c03;
pub mod c04;
pub mod c05;
pub mod c06;
pub mod c07;
pub mod c08;
pub mod c09;
pub mod c10;
pub mod c11;
pub mod c12;
pub mod c13;
pub mod c14;
pub mod c15;

use crate::engine::*;
use serde_json::Value as J;

pub fn run(id: &str, cfg: &Cfg) -> Option<Report> {
    Some(match id {
        "C01" => c01::run(cfg),
        "C02" => c02::run(cfg),
        "C03" => c03::run(cfg),
        "C04" => c04::run(cfg),
        "C05" => c05::run(cfg),
        "C06" => c06::run(cfg),
        "C07" => c07::run(cfg),
        "C08" => c08::run(cfg),
        "C09" => c09::run(cfg),
        "C10" => c10::run(cfg),
        "C11" => c11::run(cfg),
        "C12" => c12::run(cfg),
        "C13" => c13::run(cfg),
        "C14" => c14::run(cfg),
        "C15" => c15::run(cfg),
        _ => return None,
    })
}

pub fn replay(id: &str, case: &J) -> Option<i32> {
    Some(match id {
        "C01" => c01::replay(case),
        "C02" => c02::replay(case),
        "C03" => c03::replay(case),
        "C04" => c04::replay(case),
        "C05" => c05::replay(case),
        "C06" => c06::replay(case),
        "C07" => c07::replay(case),
        "C08" => c08::replay(case),
        "C09" => c09::replay(case),
        "C10" => c10::replay(case),
        "C11" => c11::replay(case),
        "C12" => c12::replay(case),
        "C13" => c13::replay(case),
        "C14" => c14::replay(case),
        "C15" => c15::replay(case),
        _ => return None,
    })
}

/// Runs `f` on a thread with a large stack (deeply nested generated inputs make the harness's own
/// recursive helpers deep) and returns its result; a panic there is an engine crash.
pub fn on_big_stack<R: Send + 'static>(f: impl FnOnce() -> R + Send + 'static) -> R {
    std::thread::Builder::new()
        .stack_size(1 << 30)
        .spawn(f)
        .expect("spawn")
        .join()
        .unwrap_or_else(|_| machinery_error("scaling-family worker panicked"))
}

/// Verdict of a replay: the single case was re-executed into `st`.
pub fn child_main(args: &[String]) -> i32 {
    match args.first().map(|s| s.as_str()) {
        Some("c01") => c01::child_main(args),
        Some("c01-trace") => c01::trace_main(),
        _ => 2,
    }
}

pub fn replay_verdict(id: &str, st: &Stats) -> i32 {
    if let Some(v) = st.violations.first() {
        println!("replayed {}: still violated\n  kind: {}\n  input: {}\n  expected: {}\n  actual: {}", id, v.kind, v.input, v.expected, v.actual);
        println!("VIOLATION property={} replay=<replayed>", id);
        EXIT_VIOLATION
    } else if !st.known_matched.is_empty() {
        println!("replayed {}: matches a known finding {:?}", id, st.known_matched);
        EXIT_OK
    } else {
        println!("replayed {}: the case now satisfies the property ({} evaluation(s))", id, st.evaluations);
        EXIT_OK
    }
}
