//! C13 — malformed expressions are rejected, never given a meaning.
//! Depth-first search over all token sequences up to a length over a class-representative alphabet;
//! an independent recogniser classifies each; the real tree builder and evaluator are run on each.

use super::common::*;
use crate::engine::*;
use crate::refmodel::ast::{node_to_nt, nt_arity_ok};
use crate::refmodel::recogniser::*;
use crate::refmodel::value::RV;
use evalexpr::{build_operator_tree, ContextWithMutableFunctions, EvalexprError, Function, Value};
use serde_json::{json, Value as J};

const ID: &str = "C13";

pub fn alphabet() -> Vec<T> {
    vec![
        T::Lit("1"),
        T::Ident("a"),
        T::Bin("+"),
        T::Minus,
        T::Not,
        T::Bin("="),
        T::Bin("+="),
        T::LParen,
        T::RParen,
        T::Comma,
        T::Semi,
        T::Lit("true"),
    ]
}

/// Wider alphabet for the shorter thorough sweep: every operator token of the language.
pub fn wide_alphabet() -> Vec<T> {
    let mut v = alphabet();
    for s in ["*", "/", "%", "^", "==", "!=", "<", ">", "<=", ">=", "&&", "||", "-=", "*=", "/=", "%=", "^=", "&&=", "||="] {
        v.push(T::Bin(s));
    }
    v.push(T::Lit("\"s\""));
    // string literals whose text is a parenthesis: they are values, not parentheses
    v.push(T::Lit("\"(\""));
    v.push(T::Lit("\")\""));
    v.push(T::Lit("2.5"));
    v.push(T::Ident("b"));
    v
}

/// Contexts in which every identifier is bound, as variable and as total function.
fn generous_contexts() -> Vec<HCtx> {
    let mut out = Vec::new();
    for (var, ret) in [
        (RV::Int(1), None),
        (RV::Bool(true), None),
        (RV::Int(1), Some(RV::Int(2))),
        (RV::Bool(true), Some(RV::Bool(false))),
        (RV::Float(1.5), Some(RV::Float(2.5))),
    ] {
        let mut c = HCtx::new();
        for name in ["a", "b"] {
            c.set_value_checked(name, &var);
            let ret = ret.clone();
            c.set_function(
                name.to_string(),
                Function::new(move |arg| {
                    Ok(match &ret {
                        None => arg.clone(),
                        Some(v) => v.to_ev(),
                    })
                }),
            )
            .unwrap();
        }
        out.push(c);
    }
    out
}

trait SetChecked {
    fn set_value_checked(&mut self, name: &str, v: &RV);
}
impl SetChecked for HCtx {
    fn set_value_checked(&mut self, name: &str, v: &RV) {
        use evalexpr::ContextWithMutableVariables;
        self.set_value(name.to_string(), v.to_ev()).unwrap();
    }
}

/// Joins tokens without spaces except between two word-like tokens (which would fuse).
fn render_compact(ts: &[T]) -> String {
    // words fuse when glued; string literals do not (`"a""b"` is two literals without a gap)
    let wordy = |t: &T| matches!(t, T::Lit(_) | T::Ident(_)) && !t.text().starts_with('"');
    let mut s = String::new();
    for (i, t) in ts.iter().enumerate() {
        if i > 0 && wordy(&ts[i - 1]) && wordy(t) {
            s.push(' ');
        }
        s.push_str(t.text());
    }
    s
}

fn check_seq(ts: &[T], ctxs: &[HCtx], st: &mut Stats) {
    check_rendered(ts, render(ts), ctxs, st);
    // a comment separates tokens exactly like a space
    if ts.len() >= 2 && ts.len() <= 5 {
        // (only where the reference lexer reads the same tokens: `/` next to `/**/` would start a line comment)
        let joined = ts.iter().map(|t| t.text()).collect::<Vec<_>>();
        let spaced = crate::refmodel::lexer::lex(&render(ts));
        for sep in ["/**/", "//c\n"] {
            let src = joined.join(sep);
            if let (Ok(a), Ok(b)) = (crate::refmodel::lexer::lex(&src), &spaced) {
                if crate::refmodel::lexer::same_tokens(&a, b) {
                    check_rendered(ts, src, ctxs, st);
                    st.count("comment-joined-renderings");
                }
            }
        }
    }
    // comments are not tokens: a parenthesis inside one changes nothing
    if ts.len() <= 4 {
        let plain = render(ts);
        for decorated in [format!("/* ( */ {}", plain), format!("{} /* ) */", plain), format!("{} // (", plain), format!("//)\n{}", plain)] {
            check_rendered(ts, decorated, ctxs, st);
        }
    }
    // the same token sequence written without spaces, if the reference lexer still reads the same tokens
    // (a sign directly in front of a number, operators glued together, ...)
    if !ts.is_empty() && ts.len() <= 6 {
        let compact = render_compact(ts);
        let same = match (crate::refmodel::lexer::lex(&compact), crate::refmodel::lexer::lex(&render(ts))) {
            (Ok(a), Ok(b)) => crate::refmodel::lexer::same_tokens(&a, &b),
            _ => false,
        };
        if same && compact != render(ts) {
            check_rendered(ts, compact, ctxs, st);
        }
    }
}

fn check_rendered(ts: &[T], src: String, ctxs: &[HCtx], st: &mut Stats) {
    let class = classify(ts);
    st.evaluations += 1;
    let mk = |kind: &str, expected: &str, actual: String| Violation {
        property: ID,
        kind: kind.into(),
        input: json!({"source": src, "tokens": ts.iter().map(|t| t.text()).collect::<Vec<_>>(), "class": format!("{:?}", class)}),
        expected: expected.into(),
        actual,
        test: test_wrap(
            "c13_replay",
            &format!(
                "    // the recogniser classifies this token sequence as {:?}\n    let tree = build_operator_tree::<DefaultNumericTypes>({:?});\n    panic!(\"{{:?}} / eval: {{:?}}\", tree, eval({:?}));\n",
                class, src, src
            ),
        ),
    };
    let tree = match guarded(|| build_operator_tree::<evalexpr::DefaultNumericTypes>(&src)) {
        Err(p) => {
            st.violation(mk("panic", "Ok or Err", format!("panic at {}: {}", p.location, p.message)));
            return;
        },
        Ok(t) => t,
    };
    match class {
        Class::Unbalanced => {
            st.count("class/unbalanced");
            if tree.is_ok() {
                st.violation(mk("unbalanced-accepted", "precompilation fails", "precompiled".into()));
            }
        },
        Class::WellFormed => {
            st.count("class/well-formed");
            match &tree {
                Err(EvalexprError::UnmatchedLBrace) | Err(EvalexprError::UnmatchedRBrace) => {
                    st.violation(mk("balanced-reported-unbalanced", "no unmatched-brace error", format!("{:?}", tree.as_ref().err())));
                },
                Err(_) => st.count("info/well-formed-but-rejected"),
                Ok(_) => st.count("info/well-formed-accepted"),
            }
        },
        Class::IllFormed => {
            st.count("class/ill-formed");
            match &tree {
                Err(EvalexprError::UnmatchedLBrace) | Err(EvalexprError::UnmatchedRBrace) => {
                    st.violation(mk("balanced-reported-unbalanced", "no unmatched-brace error", format!("{:?}", tree.as_ref().err())));
                },
                Err(_) => st.count("ill-formed/rejected-at-precompile"),
                Ok(t) => {
                    let nt = node_to_nt(t);
                    if !nt_arity_ok(&nt) {
                        st.count("ill-formed/wrong-operand-count-in-tree");
                        // "which makes every evaluation fail": confirm on the generous contexts
                    } else {
                        st.count("info/ill-formed-arity-correct-tree");
                    }
                    for c in ctxs {
                        // the shared-context walker first, then the mutable one on a clone
                        let rs = guarded(|| t.eval_with_context(c));
                        st.evaluations += 1;
                        match rs {
                            Err(p) => {
                                st.violation(mk("panic", "Ok or Err", format!("panic at {}: {}", p.location, p.message)));
                                return;
                            },
                            Ok(Ok(v)) => {
                                st.violation(mk(
                                    "ill-formed-evaluates",
                                    "precompilation or evaluation fails",
                                    format!("tree {} evaluates to {:?} through eval_with_context (shared context)", nt.show(), v),
                                ));
                                return;
                            },
                            Ok(Err(_)) => {},
                        }
                        let mut c = c.clone();
                        let r = guarded(|| t.eval_with_context_mut(&mut c));
                        st.evaluations += 1;
                        match r {
                            Err(p) => {
                                st.violation(mk("panic", "Ok or Err", format!("panic at {}: {}", p.location, p.message)));
                                return;
                            },
                            Ok(Ok(v)) => {
                                st.violation(mk(
                                    "ill-formed-evaluates",
                                    "precompilation or evaluation fails",
                                    format!("tree {} evaluates to {:?}", nt.show(), v),
                                ));
                                return;
                            },
                            Ok(Err(_)) => {},
                        }
                    }
                    if nt_arity_ok(&nt) {
                        st.count("info/suspect-arity-correct-never-evaluates");
                    }
                },
            }
        },
    }
}

fn dfs(prefix: &mut Vec<T>, alpha: &[T], max: usize, ctxs: &[HCtx], st: &mut Stats) {
    // a state is a token prefix; each visited state is checked
    check_seq(prefix, ctxs, st);
    st.states += 1;
    if prefix.len() == max {
        return;
    }
    for t in alpha {
        prefix.push(*t);
        st.transitions += 1;
        dfs(prefix, alpha, max, ctxs, st);
        prefix.pop();
    }
}

fn sweep(alpha: &[T], max: usize, label: &str) -> Stats {
    // split at depth 2 (or 1 for tiny bounds) for the worker pool
    let split = 2.min(max);
    let mut prefixes: Vec<Vec<T>> = vec![vec![]];
    for _ in 0..split {
        prefixes = prefixes
            .into_iter()
            .flat_map(|p| {
                alpha.iter().map(move |t| {
                    let mut q = p.clone();
                    q.push(*t);
                    q
                })
            })
            .collect();
    }
    let mut total = par_items(&prefixes, |_, p| {
        let ctxs = generous_contexts();
        let mut st = Stats::new();
        let mut p = p.clone();
        dfs(&mut p, alpha, max, &ctxs, &mut st);
        st
    });
    // the states above the split
    let ctxs = generous_contexts();
    let mut head = Stats::new();
    let mut shorter: Vec<Vec<T>> = vec![vec![]];
    for d in 0..split {
        for p in &shorter {
            check_seq(p, &ctxs, &mut head);
            head.states += 1;
            head.transitions += alpha.len() as u64;
        }
        if d + 1 < split {
            shorter = shorter
                .into_iter()
                .flat_map(|p| {
                    alpha.iter().map(move |t| {
                        let mut q = p.clone();
                        q.push(*t);
                        q
                    })
                })
                .collect();
        }
    }
    total.merge(head);
    total.add(&format!("{}/max-length", label), max as u64);
    total.add(&format!("{}/alphabet-size", label), alpha.len() as u64);
    total
}

/// Long malformed (and a few well-formed) token sequences: the defect sits at the end of, or deep
/// inside, an otherwise well-formed input of every size in `scale::sizes`.
fn scaling(thorough: bool) -> Stats {
    super::on_big_stack(move || {
        let mut st = Stats::new();
        let ctxs = generous_contexts();
        let one = T::Lit("1");
        let a = T::Ident("a");
        let plus = T::Bin("+");
        let rep = |ts: &[T], n: usize| -> Vec<T> { ts.iter().cycle().take(ts.len() * n).cloned().collect() };
        for n in super::scale::sizes(thorough) {
            let cat = |parts: &[Vec<T>]| -> Vec<T> { parts.concat() };
            let fams: Vec<Vec<T>> = vec![
                cat(&[rep(&[T::LParen], n), vec![one], rep(&[T::RParen], n - 1)]),
                cat(&[rep(&[T::LParen], n - 1), vec![one], rep(&[T::RParen], n)]),
                cat(&[rep(&[T::LParen], n), vec![one], rep(&[T::RParen], n)]),
                cat(&[rep(&[one, plus], n), vec![one, one]]),
                cat(&[rep(&[one, plus], n), vec![one]]),
                cat(&[rep(&[one, plus], n)]),
                cat(&[rep(&[one, T::Comma], n), vec![plus, one, one]]),
                cat(&[rep(&[one, T::Semi], n), vec![T::Bin("="), one, a]]),
                cat(&[rep(&[T::LParen], n), vec![one, one], rep(&[T::RParen], n)]),
                cat(&[rep(&[a, T::LParen], n), vec![one], rep(&[T::RParen], n)]),
                cat(&[rep(&[a, T::LParen], n), vec![one], rep(&[T::RParen], n), vec![T::LParen, T::RParen]]),
                cat(&[rep(&[a], n), vec![one, one]]),
                cat(&[rep(&[T::Minus], n)]),
                cat(&[rep(&[T::Minus], n), vec![one, T::LParen, T::RParen]]),
                cat(&[rep(&[one, T::Comma, one, T::Semi], n), vec![T::RParen]]),
                cat(&[vec![T::LParen], rep(&[one, T::Comma, one, T::Semi], n)]),
                cat(&[rep(&[one, plus, T::LParen], n), vec![one], rep(&[T::RParen], n), vec![one]]),
                cat(&[rep(&[T::Not, T::Minus], n), vec![T::Lit("true"), T::Not]]),
                // a sequence group that stays open while n more parentheses open inside it; balanced, one `)` too many, one too few
                cat(&[vec![T::LParen, one, T::Comma], rep(&[T::LParen], n), vec![one], rep(&[T::RParen], n), vec![T::RParen]]),
                cat(&[vec![T::LParen, one, T::Comma], rep(&[T::LParen], n), vec![one], rep(&[T::RParen], n), vec![T::RParen, T::RParen]]),
                cat(&[vec![T::LParen, one, T::Semi], rep(&[T::LParen], n), vec![one], rep(&[T::RParen], n)]),
                cat(&[vec![a, T::LParen, one, T::Comma], rep(&[T::LParen], n), vec![one], rep(&[T::RParen], n + 2)]),
                // a malformed statement at the start, in the middle and at the end of a chain / tuple of n well-formed ones
                cat(&[vec![one, plus, T::Semi], rep(&[one, plus, one, T::Semi], n), vec![one]]),
                cat(&[rep(&[one, plus, one, T::Semi], n / 2), vec![T::Minus, T::Semi], rep(&[one, plus, one, T::Semi], n - n / 2), vec![one]]),
                cat(&[rep(&[one, T::Comma], n), vec![T::Not, T::Comma, one]]),
                cat(&[rep(&[one, plus, one, T::Semi], n), vec![a, T::Bin("+=")]]),
                cat(&[vec![T::LParen], rep(&[one, T::Semi], n), vec![one, one, T::Semi, one, T::RParen]]),
            ];
            for f in fams {
                check_seq(&f, &ctxs, &mut st);
                st.count("scaling-family-sequences");
            }
        }
        st
    })
}

/// Every ordered pair (and, for the assignment and comparison operators, triple) of tokens of the wide
/// alphabet inside ten templates of 5..7 tokens — longer than the exhaustive wide sweep, so that what one
/// particular operator token lets pass is seen with two operands after it (`a %= * 7 2`), inside a group,
/// inside a call and after a separator.
fn token_pair_templates() -> Stats {
    let alpha = wide_alphabet();
    let ctxs = generous_contexts();
    let mut st = Stats::new();
    let (a, one, two) = (T::Ident("a"), T::Lit("1"), T::Lit("2.5"));
    for x in &alpha {
        for y in &alpha {
            let templates: Vec<Vec<T>> = vec![
                vec![a, *x, *y, one, two],
                vec![a, *x, *y, one],
                vec![a, *x, one, *y, two],
                vec![*x, a, *y, one, two],
                vec![a, *x, T::LParen, *y, one, T::RParen],
                vec![a, T::LParen, *x, *y, one, T::RParen],
                vec![one, T::Semi, *x, *y, two],
                vec![one, T::Comma, a, *x, *y, two],
                vec![T::LParen, a, *x, T::RParen, *y, one],
                vec![a, *x, one, two, *y],
            ];
            for t in &templates {
                check_seq(t, &ctxs, &mut st);
                st.states += 1;
                st.count("token-pair-template-sequences");
            }
        }
    }
    st
}

pub fn run(cfg: &Cfg) -> Report {
    let (n_rep, n_wide) = cfg.tier.pick((7, 4), (9, 5));
    let mut stats = sweep(&alphabet(), n_rep, "representative-alphabet");
    stats.merge(sweep(&wide_alphabet(), n_wide, "wide-alphabet"));
    stats.merge(scaling(cfg.tier == Tier::Thorough));
    stats.merge(token_pair_templates());
    for ts in [
        vec![T::Bin("+"), T::Lit("1"), T::Lit("1")],
        vec![T::Lit("1"), T::Bin("+"), T::Lit("1"), T::LParen, T::RParen],
        vec![T::Semi, T::LParen, T::Comma, T::Semi],
        vec![T::Lit("1"), T::Comma, T::Lit("1"), T::Semi, T::Lit("1")],
        vec![T::Ident("a"), T::Lit("1"), T::LParen, T::RParen],
        vec![T::Bin("="), T::Lit("1"), T::Ident("a")],
    ] {
        let s = render(&ts);
        stats.sample(json!({"tokens": s, "class": format!("{:?}", classify(&ts)),
            "precompile": format!("{:?}", build_operator_tree::<evalexpr::DefaultNumericTypes>(&s).map(|t| node_to_nt(&t).show()))}));
    }
    let ill = stats.get("class/ill-formed");
    let guards = vec![
        ("ill-formed, unbalanced and well-formed sequences were all enumerated".to_string(),
            ill > 0 && stats.get("class/unbalanced") > 0 && stats.get("class/well-formed") > 0),
        ("some ill-formed sequences were rejected at precompile time and some only by operand count".to_string(),
            stats.get("ill-formed/rejected-at-precompile") > 0),
        ("some well-formed sequences were accepted".to_string(), stats.get("info/well-formed-accepted") > 0),
    ];
    let nontrivial = ill + stats.get("class/unbalanced");
    stats.add("nontrivial-distinct", nontrivial);
    Report {
        property: ID,
        level: "model_checking",
        rule: format!("depth-first search over every token sequence of length <= {n_rep} over the 12-token class alphabet `1 a + - ! = += ( ) , ; true` and of length <= {n_wide} over the 36-token alphabet with every operator and string literals spelling a parenthesis; sequences of <= 4 tokens also with a comment containing a parenthesis before or after them, sequences of 2..5 tokens also joined by `/**/` and by a line comment instead of spaces; a state is a token prefix, a transition appends one token, every state is fed to the real tokenizer/tree builder (and, if it precompiles although ill-formed, evaluated in 5 generous contexts through the shared and the mutable walker). Plus every ordered pair of tokens of the wide alphabet inside ten templates of 5..7 tokens (two operands after the pair, the pair inside a group, inside a call, after a separator). Plus 27 scaling families (a missing or surplus parenthesis, a juxtaposition or a dangling operator at the end of or deep inside a long well-formed input) at every size 1..20 and up to 129 / 1..40 and up to 400. Non-trivial = classified unbalanced or ill-formed by the recogniser; each sequence is enumerated exactly once, so the count is of distinct sequences"),
        nontrivial_set: "counter:nontrivial-distinct",
        exhaustive: true,
        bound_completed: format!("length {n_rep} (class alphabet), {n_wide} (wide alphabet)"),
        assumptions: vec![
            "reference recogniser mc/src/refmodel/recogniser.rs (recursive descent over token classes) is the specification of well-formedness".into(),
            "violation only if an ill-formed sequence evaluates successfully in one of the generous contexts, an unbalanced one precompiles, or a balanced one is reported as unbalanced; arity-correct trees that never evaluate are counted as suspects, not reported".into(),
            "class-representative argument for the 12-token alphabet (DESIGN.md section 1)".into(),
        ],
        stats,
        guards,
        extra: json!({}),
    }
}

pub fn replay(case: &J) -> i32 {
    let toks = case["input"]["tokens"].as_array().unwrap_or_else(|| machinery_error("C13 replay: no tokens"));
    let alpha = wide_alphabet();
    let ts: Vec<T> = toks
        .iter()
        .map(|t| {
            let s = t.as_str().unwrap_or("");
            *alpha.iter().find(|a| a.text() == s).unwrap_or_else(|| machinery_error("C13 replay: unknown token"))
        })
        .collect();
    let mut st = Stats::new();
    check_seq(&ts, &generous_contexts(), &mut st);
    let _ = Value::<evalexpr::DefaultNumericTypes>::Empty;
    super::replay_verdict(ID, &st)
}
