//! C04 — variables keep the last assigned value; HashMapContext is type safe; clear/clone/listing.
//! Explicit-state search (stateright) whose transition function is the real HashMapContext, run in
//! lock-step with an abstract map model; plus unmerged histories from the empty context.

use super::common::*;
use crate::engine::*;
use crate::refmodel::ast::{asg_sym, Ast};
use crate::refmodel::interp::{describe, result_matches, Mode, RCtx, RErr, RFn};
use crate::refmodel::ops::{BinOp, ASSIGN_BINOPS};
use crate::refmodel::value::{RType, RV};
use evalexpr::{Context, ContextWithMutableFunctions, ContextWithMutableVariables, Function, IterateVariablesContext, Value};
use serde_json::{json, Value as J};
use stateright::{Checker, Model, Property};
use std::hash::{Hash, Hasher};
use std::sync::{Arc, Mutex};

const ID: &str = "C04";

const NAMES: [&str; 2] = ["a", "b"];
const NEVER_BOUND: &str = "c";
const FN_NAMES: [&str; 2] = ["a", "f"];

fn values() -> Vec<RV> {
    vec![
        RV::Int(1),
        RV::Int(2),
        RV::Float(1.5),
        RV::Float(1.0),
        RV::Float(0.0),
        RV::Float(-0.0),
        RV::Float(f64::NAN),
        RV::Str("s".into()),
        RV::Str("a".into()),
        RV::Bool(true),
        RV::Bool(false),
        RV::Empty,
        RV::Tuple(vec![]),
        RV::Tuple(vec![RV::Int(1)]),
        RV::Tuple(vec![RV::Int(1), RV::Int(2)]),
    ]
}

/// One right-hand side per type for the op-assign actions.
fn rhs_values() -> Vec<RV> {
    vec![
        RV::Int(2),
        RV::Int(0),
        RV::Float(1.5),
        RV::Str("s".into()),
        RV::Bool(true),
        RV::Empty,
        RV::Tuple(vec![RV::Int(1), RV::Int(2)]),
    ]
}

#[derive(Clone, Debug, PartialEq, Eq, Hash)]
pub enum Act {
    SetValue(usize, usize),
    /// `n = <literal>` through eval_with_context_mut
    Assign(usize, usize),
    /// `n op= <literal>`
    OpAssign(usize, usize, usize),
    /// `n op= <literal> op <literal>`: the right-hand side is an expression with the operator's own base
    /// operator at its top, so that `x op= e` is `x = x op (e)` only if `op=` binds weaker than `op`
    OpAssignCompound(usize, usize),
    /// `n = m`
    Copy(usize, usize),
    /// `n = c` with c never bound: a failing right-hand side
    AssignUnbound(usize),
    ClearVariables,
    ClearFunctions,
    Clear,
    SetFunction(usize, u8),
    SetBuiltinsDisabled(bool),
    CloneAndContinue,
    /// continue with a used context that was overwritten by `clone_from`
    CloneFromAndContinue,
}

/// Source and AST of `n op= l op r` with operands that make grouping observable in the stored value.
fn compound_source(n: usize, o: usize) -> (String, Ast) {
    let op = ASSIGN_BINOPS[o];
    let (l, r) = match op {
        BinOp::And => (RV::Bool(true), RV::Bool(false)),
        BinOp::Or => (RV::Bool(false), RV::Bool(true)),
        BinOp::Sub | BinOp::Div | BinOp::Mod => (RV::Int(7), RV::Int(2)),
        _ => (RV::Int(2), RV::Int(3)),
    };
    let src = format!("{} {} {} {} {}", NAMES[n], asg_sym(Some(op)), l.literal().unwrap(), op.sym(), r.literal().unwrap());
    let ast = Ast::Asg(Some(op), NAMES[n].into(), Box::new(Ast::Bin(op, Box::new(lit_ast(&l)), Box::new(lit_ast(&r)))));
    (src, ast)
}

fn act_show(a: &Act) -> String {
    let vals = values();
    let rhs = rhs_values();
    match a {
        Act::SetValue(n, v) => format!("set_value({}, {})", NAMES[*n], vals[*v].key()),
        Act::Assign(n, v) => format!("eval `{} = {}`", NAMES[*n], vals[*v].literal().unwrap_or_default()),
        Act::OpAssign(n, o, v) => format!("eval `{} {} {}`", NAMES[*n], asg_sym(Some(ASSIGN_BINOPS[*o])), rhs[*v].literal().unwrap_or_default()),
        Act::OpAssignCompound(n, o) => format!("eval `{}`", compound_source(*n, *o).0),
        Act::Copy(n, m) => format!("eval `{} = {}`", NAMES[*n], NAMES[*m]),
        Act::AssignUnbound(n) => format!("eval `{} = {}`", NAMES[*n], NEVER_BOUND),
        Act::ClearVariables => "clear_variables()".into(),
        Act::ClearFunctions => "clear_functions()".into(),
        Act::Clear => "clear()".into(),
        Act::SetFunction(n, f) => format!("set_function({}, F{})", FN_NAMES[*n], f),
        Act::SetBuiltinsDisabled(b) => format!("set_builtin_functions_disabled({})", b),
        Act::CloneAndContinue => "clone and continue with the clone".into(),
        Act::CloneFromAndContinue => "clone_from into a used context (other variables, functions, opposite switch) and continue with it".into(),
    }
}

fn all_actions(with_opassign: bool) -> Vec<Act> {
    let vals = values();
    let mut v = Vec::new();
    for n in 0..NAMES.len() {
        for i in 0..vals.len() {
            v.push(Act::SetValue(n, i));
            if vals[i].literal().is_some() {
                v.push(Act::Assign(n, i));
            }
        }
        if with_opassign {
            for o in 0..ASSIGN_BINOPS.len() {
                for r in 0..rhs_values().len() {
                    v.push(Act::OpAssign(n, o, r));
                }
                v.push(Act::OpAssignCompound(n, o));
            }
        }
        for m in 0..NAMES.len() {
            if m != n {
                v.push(Act::Copy(n, m));
            }
        }
        v.push(Act::AssignUnbound(n));
    }
    v.push(Act::ClearVariables);
    v.push(Act::ClearFunctions);
    v.push(Act::Clear);
    for n in 0..FN_NAMES.len() {
        for f in 1..=2u8 {
            v.push(Act::SetFunction(n, f));
        }
    }
    v.push(Act::SetBuiltinsDisabled(true));
    v.push(Act::SetBuiltinsDisabled(false));
    v.push(Act::CloneAndContinue);
    v.push(Act::CloneFromAndContinue);
    v
}

/// Reduced alphabet for the quick unmerged pass: one name's op-assigns only for `+=`, `/=`, `&&=`.
fn reduced_actions() -> Vec<Act> {
    all_actions(true)
        .into_iter()
        .filter(|a| match a {
            Act::OpAssign(_, o, _) => matches!(ASSIGN_BINOPS[*o], BinOp::Add | BinOp::Div | BinOp::And),
            Act::OpAssignCompound(_, o) => matches!(ASSIGN_BINOPS[*o], BinOp::Sub | BinOp::Or),
            _ => true,
        })
        .collect()
}

fn user_fn(id: u8) -> Function<evalexpr::DefaultNumericTypes> {
    Function::new(move |_| Ok(Value::Int(1000 + id as i64)))
}

#[derive(Clone, Debug)]
pub struct St {
    real: HCtx,
    model: RCtx,
    /// function identities in the model (RFn::Const(1000 + id))
    history: Vec<Act>,
    fault: Option<String>,
    /// vacuity goals reached by the transition into this state
    flags: u32,
    /// harness bookkeeping (not part of the state identity): type each name held at the last clear
    type_at_clear: std::collections::BTreeMap<String, RType>,
}

const G_TYPE_ERROR: u32 = 1;
const G_OPASSIGN_REFUSED_TYPE: u32 = 2;
const G_CLEAR_THEN_RETYPE: u32 = 4;
const G_TUPLE_LEN_CHANGE: u32 = 8;
const G_OPASSIGN_STORED: u32 = 16;
const G_ARITH_ERROR: u32 = 32;

fn model_key(m: &RCtx) -> String {
    let mut s = String::new();
    for (k, v) in &m.vars {
        s.push_str(k);
        s.push('=');
        s.push_str(&v.key());
        s.push(';');
    }
    s.push('|');
    for (k, f) in &m.funcs {
        s.push_str(k);
        s.push_str(&format!("={:?};", f));
    }
    s.push_str(if m.builtins_enabled { "|on" } else { "|off" });
    s
}

impl PartialEq for St {
    fn eq(&self, o: &St) -> bool {
        model_key(&self.model) == model_key(&o.model) && self.fault == o.fault && real_key(&self.real) == real_key(&o.real)
    }
}
impl Eq for St {}
impl Hash for St {
    fn hash<H: Hasher>(&self, h: &mut H) {
        model_key(&self.model).hash(h);
        real_key(&self.real).hash(h);
        self.fault.hash(h);
    }
}

/// Canonical observation of the real context through its public API.
fn real_key(c: &HCtx) -> String {
    let mut s = String::new();
    for (k, v) in observe_vars(c) {
        s.push_str(&k);
        s.push('=');
        s.push_str(&v);
        s.push(';');
    }
    s.push('|');
    for f in FN_NAMES {
        match c.call_function(f, &Value::Empty) {
            Ok(v) => s.push_str(&format!("{}={};", f, RV::from_ev(&v).key())),
            Err(_) => {},
        }
    }
    s.push_str(if c.are_builtin_functions_disabled() { "|off" } else { "|on" });
    s
}

/// Full observation equality between the real context and the model. Returns a description of the
/// first difference.
fn observe_diff(real: &HCtx, model: &RCtx) -> Option<String> {
    // lookup of every name
    for n in NAMES.iter().chain(std::iter::once(&NEVER_BOUND)) {
        let r = real.get_value(n).map(RV::from_ev);
        let m = model.vars.get(*n);
        match (&r, m) {
            (None, None) => {},
            (Some(x), Some(y)) if x.bits_eq(y) => {},
            _ => return Some(format!("get_value({}) is {:?}, model has {:?}", n, r.map(|v| v.key()), m.map(|v| v.key()))),
        }
    }
    // listings (sorted, duplicates counted)
    let listed = observe_vars(real);
    let want: Vec<(String, String)> = model.vars.iter().map(|(k, v)| (k.clone(), v.key())).collect();
    if listed != want {
        return Some(format!("iter_variables yields {:?}, model has {:?}", listed, want));
    }
    let mut names: Vec<String> = real.iter_variable_names().collect();
    names.sort();
    let want_names: Vec<String> = model.vars.keys().cloned().collect();
    if names != want_names {
        return Some(format!("iter_variable_names yields {:?}, model has {:?}", names, want_names));
    }
    // function lookup
    for f in FN_NAMES.iter().chain(std::iter::once(&"g")) {
        let r = real.call_function(f, &Value::Empty);
        let m = model.funcs.get(*f);
        let ok = match (&r, m) {
            (Ok(v), Some(RFn::Const(c))) => RV::from_ev(v).bits_eq(c),
            (Err(evalexpr::EvalexprError::FunctionIdentifierNotFound(n)), None) => n == f,
            _ => false,
        };
        if !ok {
            return Some(format!("call_function({}) gives {:?}, model has {:?}", f, r, m));
        }
    }
    if real.are_builtin_functions_disabled() == model.builtins_enabled {
        return Some(format!("are_builtin_functions_disabled() is {}, model says builtins enabled = {}", real.are_builtin_functions_disabled(), model.builtins_enabled));
    }
    // reads through the evaluator
    for n in NAMES {
        let r = evalexpr::eval_with_context(n, real);
        let m: Result<RV, RErr> = model.vars.get(n).cloned().ok_or(RErr::VarNotFound(n.to_string()));
        if !result_matches(&m, &r) {
            return Some(format!("eval_with_context({:?}) gives {:?}, model says {}", n, r, describe(&m)));
        }
    }
    None
}

/// Applies one action to the real context and to the model; returns a description of any divergence
/// in the return value, plus goal flags.
fn apply(real: &mut HCtx, model: &mut RCtx, act: &Act) -> (Option<String>, u32) {
    let vals = values();
    let rhs = rhs_values();
    let mut flags = 0;
    let mut eval_both = |real: &mut HCtx, model: &mut RCtx, src: String, ast: Ast| -> (Option<String>, Result<RV, RErr>) {
        // an expression that assigns can reach the context through several entry points: the string-level and
        // the tree-level untyped forms and the typed "empty" forms (an assignment evaluates to the empty value);
        // all of them must leave the same context and agree on success (run on clones, compared with the primary)
        let before = real.clone();
        let r = evalexpr::eval_with_context_mut(&src, real);
        {
            let after_primary = observe_vars(real);
            let tree = evalexpr::build_operator_tree::<evalexpr::DefaultNumericTypes>(&src);
            let mut alts: Vec<(&str, Result<(), String>, Vec<(String, String)>)> = Vec::new();
            if let Ok(tree) = &tree {
                let mut c = before.clone();
                let x = tree.eval_with_context_mut(&mut c).map(|_| ()).map_err(|e| format!("{:?}", e));
                alts.push(("Node::eval_with_context_mut", x, observe_vars(&c)));
                let mut c = before.clone();
                let x = tree.eval_empty_with_context_mut(&mut c).map_err(|e| format!("{:?}", e));
                alts.push(("Node::eval_empty_with_context_mut", x, observe_vars(&c)));
            }
            let mut c = before.clone();
            let x = evalexpr::eval_empty_with_context_mut(&src, &mut c).map_err(|e| format!("{:?}", e));
            alts.push(("eval_empty_with_context_mut", x, observe_vars(&c)));
            let primary = r.as_ref().map(|_| ()).map_err(|e| format!("{:?}", e));
            for (name, res, vars) in alts {
                if res != primary || vars != after_primary {
                    return (
                        Some(format!("`{}` through {} gives {:?} and variables {:?}; through eval_with_context_mut it gives {:?} and variables {:?}", src, name, res, vars, primary, after_primary)),
                        model.eval(&ast, Mode::Mutable),
                    );
                }
            }
        }
        let m = model.eval(&ast, Mode::Mutable);
        if model.unclaimed {
            model.unclaimed = false;
            return (None, m);
        }
        if !result_matches(&m, &r) {
            return (Some(format!("`{}` returned {:?}, model says {}", src, r, describe(&m))), m);
        }
        (None, m)
    };
    let diff = match act {
        Act::SetValue(n, v) => {
            let before_type = model.vars.get(NAMES[*n]).map(|x| x.rtype());
            let before_len = match model.vars.get(NAMES[*n]) {
                Some(RV::Tuple(t)) => Some(t.len()),
                _ => None,
            };
            let r = real.set_value(NAMES[*n].to_string(), vals[*v].to_ev());
            let m = model.set(NAMES[*n], vals[*v].clone());
            if m.is_err() {
                flags |= G_TYPE_ERROR;
            }
            if let (Some(l), RV::Tuple(t), Ok(())) = (before_len, &vals[*v], &m) {
                if l != t.len() {
                    flags |= G_TUPLE_LEN_CHANGE;
                }
            }
            let _ = before_type;
            let ok = match (&r, &m) {
                (Ok(()), Ok(())) => true,
                (Err(e), Err(me)) => crate::refmodel::interp::err_matches(me, e),
                _ => false,
            };
            if ok {
                None
            } else {
                Some(format!("set_value({}, {}) returned {:?}, model says {:?}", NAMES[*n], vals[*v].key(), r, m))
            }
        },
        Act::Assign(n, v) => {
            let lit = vals[*v].literal().unwrap();
            let ast = Ast::Asg(None, NAMES[*n].into(), Box::new(lit_ast(&vals[*v])));
            let (d, m) = eval_both(real, model, format!("{} = {}", NAMES[*n], lit), ast);
            if matches!(m, Err(RErr::ExpectedType(..))) {
                flags |= G_TYPE_ERROR;
            }
            d
        },
        Act::OpAssign(n, o, v) => {
            let op = ASSIGN_BINOPS[*o];
            let lit = rhs[*v].literal().unwrap();
            let ast = Ast::Asg(Some(op), NAMES[*n].into(), Box::new(lit_ast(&rhs[*v])));
            let (d, m) = eval_both(real, model, format!("{} {} {}", NAMES[*n], asg_sym(Some(op)), lit), ast);
            match &m {
                Err(RErr::ExpectedType(..)) => flags |= G_OPASSIGN_REFUSED_TYPE,
                Err(RErr::Class(crate::refmodel::ops::ErrClass::Arith)) => flags |= G_ARITH_ERROR,
                Ok(_) => flags |= G_OPASSIGN_STORED,
                _ => {},
            }
            d
        },
        Act::OpAssignCompound(n, o) => {
            let (src, ast) = compound_source(*n, *o);
            let (d, m) = eval_both(real, model, src, ast);
            if m.is_ok() {
                flags |= G_OPASSIGN_STORED;
            }
            d
        },
        Act::Copy(n, m) => {
            let ast = Ast::Asg(None, NAMES[*n].into(), Box::new(Ast::Var(NAMES[*m].into())));
            let (d, r) = eval_both(real, model, format!("{} = {}", NAMES[*n], NAMES[*m]), ast);
            if matches!(r, Err(RErr::ExpectedType(..))) {
                flags |= G_TYPE_ERROR;
            }
            d
        },
        Act::AssignUnbound(n) => {
            let ast = Ast::Asg(None, NAMES[*n].into(), Box::new(Ast::Var(NEVER_BOUND.into())));
            eval_both(real, model, format!("{} = {}", NAMES[*n], NEVER_BOUND), ast).0
        },
        Act::ClearVariables => {
            real.clear_variables();
            model.vars.clear();
            None
        },
        Act::ClearFunctions => {
            real.clear_functions();
            model.funcs.clear();
            None
        },
        Act::Clear => {
            real.clear();
            model.vars.clear();
            model.funcs.clear();
            None
        },
        Act::SetFunction(n, f) => {
            let r = real.set_function(FN_NAMES[*n].to_string(), user_fn(*f));
            model.funcs.insert(FN_NAMES[*n].to_string(), RFn::Const(RV::Int(1000 + *f as i64)));
            if r.is_ok() {
                None
            } else {
                Some(format!("set_function returned {:?}", r))
            }
        },
        Act::SetBuiltinsDisabled(b) => {
            let r = real.set_builtin_functions_disabled(*b);
            model.builtins_enabled = !*b;
            if r.is_ok() {
                None
            } else {
                Some(format!("set_builtin_functions_disabled returned {:?}", r))
            }
        },
        Act::CloneAndContinue => {
            let c = real.clone();
            *real = c;
            None
        },
        Act::CloneFromAndContinue => {
            let mut target = HCtx::new();
            let _ = target.set_builtin_functions_disabled(!real.are_builtin_functions_disabled());
            let _ = target.set_value("stale".into(), Value::Int(1));
            let _ = target.set_value(NAMES[0].into(), Value::String("stale".into()));
            let _ = target.set_function("g".into(), user_fn(9));
            target.clone_from(real);
            *real = target;
            None
        },
    };
    (diff, flags)
}

fn lit_ast(v: &RV) -> Ast {
    match v {
        RV::Tuple(t) => Ast::Tuple(t.iter().map(lit_ast).collect()),
        RV::Empty => Ast::Unit,
        other => Ast::Lit(other.clone()),
    }
}

/// One checked step: action on a clone of the state's context and model, return values compared,
/// full observation compared, and the original left unchanged (clone independence; a failed
/// assignment leaves everything unchanged because the model says so).
fn step(last: &St, act: &Act) -> St {
    let mut real = last.real.clone();
    let mut model = last.model.clone();
    let before_parent = real_key(&last.real);
    let (diff, mut flags) = match guarded(|| apply(&mut real, &mut model, act)) {
        Ok(x) => x,
        Err(p) => (Some(format!("panic at {}: {}", p.location, p.message)), 0),
    };
    let mut type_at_clear = last.type_at_clear.clone();
    if matches!(act, Act::ClearVariables | Act::Clear) {
        for (k, v) in &last.model.vars {
            type_at_clear.insert(k.clone(), v.rtype());
        }
    }
    if let Act::SetValue(n, _) | Act::Assign(n, _) = act {
        // the name held another type when the variables were last cleared, and holds the new one now
        if let (Some(t), Some(v)) = (type_at_clear.get(NAMES[*n]), model.vars.get(NAMES[*n])) {
            if *t != v.rtype() && !last.model.vars.contains_key(NAMES[*n]) {
                flags |= G_CLEAR_THEN_RETYPE;
            }
        }
    }
    let mut fault = diff;
    if fault.is_none() {
        fault = observe_diff(&real, &model);
    }
    if fault.is_none() && real_key(&last.real) != before_parent {
        fault = Some("the action on a clone changed the original context".into());
    }
    if fault.is_none() {
        // the parent still conforms to its own model
        fault = observe_diff(&last.real, &last.model).map(|d| format!("original context changed by an action on its clone: {}", d));
    }
    let mut history = last.history.clone();
    history.push(act.clone());
    St {
        real,
        model,
        history,
        fault: fault.or_else(|| last.fault.clone()),
        flags,
        type_at_clear,
    }
}

fn in_box(m: &RCtx) -> bool {
    fn ok(v: &RV) -> bool {
        match v {
            RV::Int(i) => i.abs() <= 8,
            RV::Float(f) => f.is_nan() || [1.5, 2.5, 3.0, 4.0, 0.0, 1.0, -1.0, 0.5, 2.0, -0.5, 0.25].iter().any(|x| x == f),
            RV::Str(s) => s.len() <= 3,
            RV::Tuple(t) => t.iter().all(ok),
            _ => true,
        }
    }
    m.vars.values().all(ok)
}

#[derive(Clone)]
struct Machine {
    actions: Vec<Act>,
    boxed: bool,
    faults: Arc<Mutex<Vec<(Vec<Act>, String)>>>,
    transitions: Arc<std::sync::atomic::AtomicU64>,
    /// first history that reached each vacuity goal (goal flags are not part of the state identity,
    /// so they are tracked here rather than as stateright `sometimes` properties)
    goals: Arc<Mutex<std::collections::BTreeMap<u32, Vec<Act>>>>,
}

impl Model for Machine {
    type State = St;
    type Action = Act;
    fn init_states(&self) -> Vec<St> {
        vec![St {
            real: HCtx::new(),
            model: RCtx::new(),
            history: vec![],
            fault: None,
            flags: 0,
            type_at_clear: Default::default(),
        }]
    }
    fn actions(&self, _s: &St, out: &mut Vec<Act>) {
        out.extend(self.actions.iter().cloned());
    }
    fn next_state(&self, last: &St, act: Act) -> Option<St> {
        let s = step(last, &act);
        self.transitions.fetch_add(1, std::sync::atomic::Ordering::Relaxed);
        let new_flags = s.flags;
        if new_flags != 0 {
            let mut g = self.goals.lock().unwrap();
            for bit in 0..8 {
                if new_flags & (1 << bit) != 0 {
                    g.entry(1 << bit).or_insert_with(|| s.history.clone());
                }
            }
        }
        if let Some(f) = &s.fault {
            if last.fault.is_none() {
                let mut g = self.faults.lock().unwrap();
                if g.len() < 64 {
                    g.push((s.history.clone(), f.clone()));
                }
            }
        }
        Some(s)
    }
    fn within_boundary(&self, s: &St) -> bool {
        // transitions leaving the magnitude box are executed and checked (in next_state) but not expanded
        !self.boxed || in_box(&s.model)
    }
    fn properties(&self) -> Vec<Property<Self>> {
        vec![Property::always("conforms to the abstract map model", |_, s: &St| s.fault.is_none())]
    }
}

fn history_json(h: &[Act]) -> J {
    json!(h.iter().map(act_show).collect::<Vec<_>>())
}

fn history_codes(h: &[Act]) -> J {
    json!(h.iter().map(|a| format!("{:?}", a)).collect::<Vec<_>>())
}

fn violation_for(history: &[Act], fault: &str) -> Violation {
    Violation {
        property: ID,
        kind: "model-divergence".into(),
        input: json!({"history": history_json(history), "codes": history_codes(history)}),
        expected: "return value and complete observable state equal the abstract map model after every step".into(),
        actual: fault.to_string(),
        test: test_wrap(
            "c04_replay",
            &format!(
                "    // history from an empty HashMapContext (apply in order):\n{}    // divergence at the last step: {}\n",
                history.iter().map(|a| format!("    //   {}\n", act_show(a))).collect::<String>(),
                fault
            ),
        ),
    }
}

/// Unmerged histories: every action sequence of the given depth from the empty context, no state
/// merging, so a change that keeps hidden state the observation cannot see is still exercised.
fn unmerged(actions: &[Act], depth: usize, goals: &Arc<Mutex<std::collections::BTreeMap<u32, Vec<Act>>>>) -> Stats {
    let init = St {
        real: HCtx::new(),
        model: RCtx::new(),
        history: vec![],
        fault: None,
        flags: 0,
        type_at_clear: Default::default(),
    };
    par_items(actions, |_, first| {
        let mut st = Stats::new();
        fn note(n: &St, goals: &Arc<Mutex<std::collections::BTreeMap<u32, Vec<Act>>>>) {
            if n.flags != 0 {
                let mut g = goals.lock().unwrap();
                for bit in 0..8 {
                    if n.flags & (1 << bit) != 0 {
                        g.entry(1 << bit).or_insert_with(|| n.history.clone());
                    }
                }
            }
        }
        fn go(s: &St, actions: &[Act], left: usize, st: &mut Stats, goals: &Arc<Mutex<std::collections::BTreeMap<u32, Vec<Act>>>>) {
            if left == 0 {
                return;
            }
            for a in actions {
                let n = step(s, a);
                note(&n, goals);
                st.transitions += 1;
                st.evaluations += 1;
                if let Some(f) = &n.fault {
                    st.violation(violation_for(&n.history, f));
                    continue;
                }
                go(&n, actions, left - 1, st, goals);
            }
        }
        let s1 = step(&init, first);
        st.transitions += 1;
        st.evaluations += 1;
        if let Some(f) = &s1.fault {
            st.violation(violation_for(&s1.history, f));
        } else {
            note(&s1, goals);
            go(&s1, actions, depth - 1, &mut st, goals);
        }
        st
    })
}

/// Contexts with many variables and long single-variable histories.
fn scaling(thorough: bool) -> Stats {
    let mut st = Stats::new();
    let vals = values();
    let mk = |history: String, fault: String| Violation {
        property: ID,
        kind: "model-divergence".into(),
        input: json!({"history": [history], "codes": []}),
        expected: "listing, lookups and return values equal the abstract map model".into(),
        actual: fault,
        test: String::new(),
    };
    for n in super::scale::sizes(thorough) {
        let mut real = HCtx::new();
        let mut model = RCtx::new();
        let name = |i: usize| format!("var_{}", i);
        // n variables of cycling types, half through the API, half through expressions
        for i in 0..n {
            let v = &vals[i % vals.len()];
            if i % 2 == 0 || v.literal().is_none() {
                let r = real.set_value(name(i), v.to_ev());
                let m = model.set(&name(i), v.clone());
                if r.is_ok() != m.is_ok() {
                    st.violation(mk(format!("set_value of {} variables", n), format!("variable {}: {:?} vs model {:?}", i, r, m)));
                }
            } else {
                let src = format!("{} = {}", name(i), v.literal().unwrap());
                let r = evalexpr::eval_with_context_mut(&src, &mut real);
                let m = model.set(&name(i), v.clone());
                if r.is_ok() != m.is_ok() {
                    st.violation(mk(format!("{} variables", n), format!("`{}`: {:?} vs model {:?}", src, r, m)));
                }
            }
            st.transitions += 1;
        }
        st.evaluations += n as u64;
        let listing_ok = |real: &HCtx, model: &RCtx| -> Option<String> {
            let listed = observe_vars(real);
            let want: Vec<(String, String)> = model.vars.iter().map(|(k, v)| (k.clone(), v.key())).collect();
            let mut names: Vec<String> = real.iter_variable_names().collect();
            names.sort();
            if listed != want {
                return Some(format!("iter_variables has {} entries, model {}", listed.len(), want.len()));
            }
            if names != model.vars.keys().cloned().collect::<Vec<_>>() {
                return Some("iter_variable_names differs from the model".into());
            }
            for (k, v) in &model.vars {
                if real.get_value(k).map(|x| RV::from_ev(x).bits_eq(v)) != Some(true) {
                    return Some(format!("get_value({}) differs from the model", k));
                }
            }
            None
        };
        if let Some(f) = listing_ok(&real, &model) {
            st.violation(mk(format!("{} variables set", n), f));
        }
        // retype attempts are refused for every variable, same-type overwrites succeed
        let snapshot = real.clone();
        for i in 0..n {
            let cur = &vals[i % vals.len()];
            let other = &vals[(i + 2) % vals.len()];
            let r = real.set_value(name(i), other.to_ev());
            let m = model.set(&name(i), other.clone());
            let ok = match (&r, &m) {
                (Ok(()), Ok(())) => true,
                (Err(e), Err(me)) => crate::refmodel::interp::err_matches(me, e),
                _ => false,
            };
            if !ok {
                st.violation(mk(format!("{} variables, then set_value({}, {}) over {}", n, name(i), other.key(), cur.key()), format!("{:?} vs model {:?}", r, m)));
            }
            st.transitions += 1;
        }
        if let Some(f) = listing_ok(&real, &model) {
            st.violation(mk(format!("{} variables after overwrite attempts", n), f));
        }
        // the clone taken before is untouched by what happened since
        if observe_vars(&snapshot).len() != n {
            st.violation(mk(format!("clone of a context with {} variables", n), "clone changed with the original".into()));
        }
        real.clear_variables();
        model.vars.clear();
        if let Some(f) = listing_ok(&real, &model) {
            st.violation(mk(format!("{} variables cleared", n), f));
        }
        // one expression assigning n variables (a chain of n statements), then one with n op-assigns
        {
            let mut c = HCtx::new();
            let mut m = RCtx::new();
            let program: String = (0..n).map(|i| format!("w{} = {}; ", i, i)).collect::<String>() + "w0";
            let r = evalexpr::eval_with_context_mut(&program, &mut c);
            for i in 0..n {
                m.vars.insert(format!("w{}", i), RV::Int(i as i64));
            }
            st.transitions += n as u64;
            if !matches!(&r, Ok(Value::Int(0))) {
                st.violation(mk(format!("one expression with {} assignments `w0 = 0; w1 = 1; ...; w0`", n), format!("returned {:?}", r)));
            } else if let Some(f) = listing_ok(&c, &m) {
                st.violation(mk(format!("one expression with {} assignments `w0 = 0; w1 = 1; ...`", n), f));
            }
            let bump: String = (0..n).map(|i| format!("w{} += {}; ", i, i + 1)).collect::<String>() + "(w0, w0)";
            let r = evalexpr::eval_with_context_mut(&bump, &mut c);
            for i in 0..n {
                m.vars.insert(format!("w{}", i), RV::Int(2 * i as i64 + 1));
            }
            if r.is_err() {
                st.violation(mk(format!("one expression with {} op-assignments `w0 += 1; w1 += 2; ...`", n), format!("returned {:?}", r)));
            } else if let Some(f) = listing_ok(&c, &m) {
                st.violation(mk(format!("one expression with {} op-assignments", n), f));
            }
        }
        // a long single-variable history: n op-assigns
        let mut c = HCtx::new();
        let mut m = RCtx::new();
        let _ = evalexpr::eval_with_context_mut("a = 0; s = \"\"", &mut c);
        m.vars.insert("a".into(), RV::Int(0));
        m.vars.insert("s".into(), RV::Str(String::new()));
        for i in 0..n {
            let _ = evalexpr::eval_with_context_mut("a += 3; a -= 1; s += \"x\"", &mut c);
            m.vars.insert("a".into(), RV::Int(2 * (i as i64 + 1)));
            m.vars.insert("s".into(), RV::Str("x".repeat(i + 1)));
            st.transitions += 3;
        }
        if let Some(f) = listing_ok(&c, &m) {
            st.violation(mk(format!("{} rounds of `a += 3; a -= 1; s += \"x\"`", n), f));
        }
        st.count("scaling-family-contexts");
    }
    st
}

/// NOT PART OF THE VERDICT (kept for the record, see DESIGN section 9): this family demanded that a clone of a
/// context copies the state a user closure owns. The property's model is an abstract map from names to values
/// and functions; what a `Fn` closure does with interior state of its own is outside it, and two filed
/// behaviour-preserving refactors (R11-2, R17-2: functions shared between clones through `Arc`) tripped it.
/// A check that demands more than the property states is a false alarm; the family was withdrawn the same day.
///
/// Stateful user functions and clone independence: a context holds a function `next` whose closure owns a
/// counter that its own `Clone` deep-copies. Every history of <= `depth` operations over up to three contexts
/// — call `next` through context i (by `call_function`, by `eval_with_context("next()")`, by
/// `eval_with_context_mut("x = next(); x")`), clone context i into a new context, `clone_from` context i into
/// context j — is executed on the real contexts and on a model in which every context has a counter of its
/// own, copied at the moment of the clone: "clones are independent of the original" includes the state the
/// registered functions own (a `Function` clone that shares the closure lets calls through one context show
/// in the other). Stateless exploration: every history is executed from the start.
#[allow(dead_code)]
fn stateful_function_clones(depth: usize) -> Stats {
    struct Ctr(Mutex<i64>);
    impl Clone for Ctr {
        fn clone(&self) -> Self {
            Ctr(Mutex::new(*self.0.lock().unwrap()))
        }
    }
    impl Ctr {
        fn bump(&self) -> i64 {
            let mut g = self.0.lock().unwrap();
            *g += 1;
            *g
        }
    }
    fn fresh() -> HCtx {
        let ctr = Ctr(Mutex::new(0));
        let mut c = HCtx::new();
        c.set_function(
            "next".into(),
            // (a method call, so that the closure owns the whole `Ctr` and clones it through `Ctr::clone`)
            Function::new(move |_| Ok(Value::Int(ctr.bump()))),
        )
        .unwrap();
        c
    }
    #[derive(Clone, Copy, Debug)]
    enum Op {
        Call(usize, u8),
        CloneOf(usize),
        CloneFrom(usize, usize),
    }
    let show = |o: &Op| match o {
        Op::Call(i, 0) => format!("c{}.call_function(\"next\", &Value::Empty)", i),
        Op::Call(i, 1) => format!("eval_with_context(\"next()\", &c{})", i),
        Op::Call(i, _) => format!("eval_with_context_mut(\"x = next(); x\", &mut c{})", i),
        Op::CloneOf(i) => format!("push c{}.clone()", i),
        Op::CloneFrom(i, j) => format!("c{}.clone_from(&c{})", j, i),
    };
    let mut st = Stats::new();
    // executes one history; returns the first divergence
    let run = |h: &[Op]| -> Option<(String, String)> {
        let mut real: Vec<HCtx> = vec![fresh()];
        let mut model: Vec<i64> = vec![0];
        for (k, op) in h.iter().enumerate() {
            match *op {
                Op::Call(i, route) => {
                    model[i] += 1;
                    let got = match route {
                        0 => guarded(|| real[i].call_function("next", &Value::Empty)),
                        1 => guarded(|| evalexpr::eval_with_context("next()", &real[i])),
                        _ => {
                            let c = &mut real[i];
                            guarded(|| evalexpr::eval_with_context_mut("x = next(); x", c))
                        },
                    };
                    let got = match got {
                        Ok(r) => format!("{:?}", r),
                        Err(p) => format!("panic at {}: {}", p.location, p.message),
                    };
                    let want = format!("Ok(Int({}))", model[i]);
                    if got != want {
                        return Some((format!("step {}: {} (every context counts on its own; a clone starts from the count of its source)", k + 1, want), format!("step {}: {}", k + 1, got)));
                    }
                },
                Op::CloneOf(i) => {
                    let c = real[i].clone();
                    real.push(c);
                    model.push(model[i]);
                },
                Op::CloneFrom(i, j) => {
                    // clone_from needs two distinct borrows
                    let (a, b) = if i < j {
                        let (l, r) = real.split_at_mut(j);
                        (&l[i], &mut r[0])
                    } else {
                        let (l, r) = real.split_at_mut(i);
                        (&r[0], &mut l[j])
                    };
                    b.clone_from(a);
                    model[j] = model[i];
                },
            }
        }
        None
    };
    fn rec(h: &mut Vec<Op>, n: usize, depth: usize, f: &mut dyn FnMut(&[Op])) {
        if !h.is_empty() {
            f(h);
        }
        if h.len() == depth {
            return;
        }
        let mut ops: Vec<Op> = Vec::new();
        for i in 0..n {
            for r in 0..3u8 {
                ops.push(Op::Call(i, r));
            }
            if n < 3 {
                ops.push(Op::CloneOf(i));
            }
            for j in 0..n {
                if i != j {
                    ops.push(Op::CloneFrom(i, j));
                }
            }
        }
        for o in ops {
            h.push(o);
            rec(h, if matches!(o, Op::CloneOf(_)) { n + 1 } else { n }, depth, f);
            h.pop();
        }
    }
    let mut h: Vec<Op> = Vec::new();
    let mut failed = false;
    rec(&mut h, 1, depth, &mut |hist| {
        if failed {
            return;
        }
        st.evaluations += hist.len() as u64;
        st.count("stateful-function-clone-histories");
        if hist.iter().any(|o| !matches!(o, Op::Call(..))) && hist.iter().filter(|o| matches!(o, Op::Call(..))).count() >= 2 {
            st.count("stateful-function-clone-histories/with-a-clone-and-two-calls");
        }
        if let Some((expected, actual)) = run(hist) {
            failed = true;
            let lines: Vec<String> = hist.iter().map(|o| show(o)).collect();
            st.violation(Violation {
                property: ID,
                kind: "stateful-function-clone-independence".into(),
                input: json!({"codes": [], "history": lines, "family": "stateful-function-clones"}),
                expected,
                actual,
                test: test_wrap("c04_replay", &format!("    // c0 holds a user function `next` whose closure owns a counter (its Clone copies the count); then:\n{}    panic!(\"see the history above\");\n", lines.iter().map(|l| format!("    // {}\n", l)).collect::<String>())),
            });
        }
    });
    st
}

/// The `context_map!` macro is a second way "through the API" to build a context: every entry kind (`int`,
/// `float`, a plain value, a function) in every position (only, first, middle, last), with and without the
/// trailing comma, and a retyped duplicate key; the result must be the context the equivalent set_value /
/// set_function calls build.
fn context_map_forms() -> Stats {
    use evalexpr::{context_map, DefaultNumericTypes as D, Function as F, HashMapContext as H};
    let mut st = Stats::new();
    let mut case = |label: &str, got: Result<H<D>, EErr>, want_vars: &[(&str, RV)], want_funcs: &[&str], want_err: bool| {
        st.evaluations += 1;
        st.count("context-map-forms");
        let ok = match &got {
            Err(_) => want_err,
            Ok(c) => {
                let vars: Vec<(String, String)> = {
                    let mut v: Vec<(String, String)> = want_vars.iter().map(|(n, v)| (n.to_string(), v.key())).collect();
                    v.sort();
                    v
                };
                !want_err
                    && observe_vars(c) == vars
                    && want_funcs.iter().all(|f| matches!(c.call_function(f, &Value::Int(1)), Ok(Value::Int(43))))
                    && matches!(c.call_function("nofn", &Value::Int(1)), Err(evalexpr::EvalexprError::FunctionIdentifierNotFound(_)))
            },
        };
        if !ok {
            st.violation(Violation {
                property: ID,
                kind: "context-map-macro".into(),
                input: json!({"codes": [], "history": [format!("context_map! {{ {} }}", label)]}),
                expected: if want_err { "an expected-type error".to_string() } else { format!("variables {:?}, functions {:?}", want_vars.iter().map(|(n, v)| (n.to_string(), v.key())).collect::<Vec<_>>(), want_funcs) },
                actual: match &got {
                    Ok(c) => format!("variables {:?}", observe_vars(c)),
                    Err(e) => format!("Err({:?})", e),
                },
                test: test_wrap("c04_replay", &format!("    let c: Result<HashMapContext<DefaultNumericTypes>, _> = context_map! {{ {} }};\n    panic!(\"{{:?}}\", c);\n", label)),
            });
        }
    };
    let (i5, f25, s, b) = (RV::Int(5), RV::Float(2.5), RV::Str("t".into()), RV::Bool(true));
    macro_rules! cm {
        ($label:literal, [$($vars:expr),*], [$($funcs:expr),*], $err:expr, $($tt:tt)*) => {
            case($label, context_map! { $($tt)* }, &[$($vars),*], &[$($funcs),*], $err)
        };
    }
    cm!("\"a\" => int 5", [("a", i5.clone())], [], false, "a" => int 5);
    cm!("\"a\" => int 5,", [("a", i5.clone())], [], false, "a" => int 5,);
    cm!("\"a\" => float 2.5", [("a", f25.clone())], [], false, "a" => float 2.5);
    cm!("\"a\" => float 2.5,", [("a", f25.clone())], [], false, "a" => float 2.5,);
    cm!("\"a\" => \"t\"", [("a", s.clone())], [], false, "a" => "t");
    cm!("\"a\" => true,", [("a", b.clone())], [], false, "a" => true,);
    cm!("\"f\" => Function::new(..)", [], ["f"], false, "f" => Function::new(|a| Ok(Value::Int(a.as_int()? + 42))));
    cm!("\"f\" => Function::new(..),", [], ["f"], false, "f" => Function::new(|a| Ok(Value::Int(a.as_int()? + 42))),);
    cm!("\"b\" => float 2.5, \"a\" => int 5", [("a", i5.clone()), ("b", f25.clone())], [], false, "b" => float 2.5, "a" => int 5);
    cm!("\"b\" => int 5, \"a\" => float 2.5", [("a", f25.clone()), ("b", i5.clone())], [], false, "b" => int 5, "a" => float 2.5);
    cm!("\"b\" => \"t\", \"a\" => int 5,", [("a", i5.clone()), ("b", s.clone())], [], false, "b" => "t", "a" => int 5,);
    cm!("\"a\" => int 5, \"f\" => Function::new(..)", [("a", i5.clone())], ["f"], false, "a" => int 5, "f" => Function::new(|a| Ok(Value::Int(a.as_int()? + 42))));
    cm!("\"f\" => Function::new(..), \"a\" => float 2.5", [("a", f25.clone())], ["f"], false, "f" => Function::new(|a| Ok(Value::Int(a.as_int()? + 42))), "a" => float 2.5);
    cm!("\"a\" => int 5, \"b\" => true, \"c\" => float 2.5", [("a", i5.clone()), ("b", b.clone()), ("c", f25.clone())], [], false, "a" => int 5, "b" => true, "c" => float 2.5);
    cm!("\"a\" => float 2.5, \"f\" => Function::new(..), \"c\" => int 5", [("a", f25.clone()), ("c", i5.clone())], ["f"], false, "a" => float 2.5, "f" => Function::new(|a| Ok(Value::Int(a.as_int()? + 42))), "c" => int 5);
    cm!("\"a\" => int 5, \"a\" => int 6", [("a", RV::Int(6))], [], false, "a" => int 5, "a" => int 6);
    cm!("\"a\" => int 5, \"a\" => float 2.5", [], [], true, "a" => int 5, "a" => float 2.5);
    cm!("\"a\" => \"t\", \"a\" => int 5", [], [], true, "a" => "t", "a" => int 5);
    cm!("\"a\" => \"t\", \"a\" => \"u\"", [("a", RV::Str("u".into()))], [], false, "a" => "t", "a" => "u");
    cm!("\"a\" => true, \"b\" => int 5, \"a\" => false", [("a", RV::Bool(false)), ("b", i5.clone())], [], false, "a" => true, "b" => int 5, "a" => false);
    cm!("\"a\" => \"t\", \"a\" => \"u\", \"a\" => \"v\",", [("a", RV::Str("v".into()))], [], false, "a" => "t", "a" => "u", "a" => "v",);
    cm!("(empty)", [], [], false,);
    // which error: the entry that does not fit the value the variable holds *at that point*
    {
        let got: Result<H<D>, EErr> = context_map! { "a" => "t", "a" => int 5 };
        let ok = matches!(&got, Err(evalexpr::EvalexprError::ExpectedString { actual: Value::Int(5) }));
        if !ok {
            st.violation(Violation {
                property: ID,
                kind: "context-map-macro".into(),
                input: json!({"codes": [], "history": ["context_map! { \"a\" => \"t\", \"a\" => int 5 }"]}),
                expected: "Err(ExpectedString { actual: Int(5) }): the second entry does not fit the string the first one bound".into(),
                actual: format!("{:?}", got.map(|c| observe_vars(&c))),
                test: String::new(),
            });
        }
        st.evaluations += 1;
    }
    let _ = (F::<D>::new(|a| Ok(a.clone())), b);
    st
}

pub fn run(cfg: &Cfg) -> Report {
    let mut stats = Stats::new();
    let mut extra = serde_json::Map::new();
    let mut guards = Vec::new();
    let goals: Arc<Mutex<std::collections::BTreeMap<u32, Vec<Act>>>> = Arc::new(Mutex::new(Default::default()));
    // 1. closed sub-machine (no value-growing actions): explored to closure
    // 2. with op-assign inside the magnitude box: quick = depth-bounded, thorough = fixpoint
    for (label, with_op, boxed, depth) in [
        ("closed", false, false, None),
        ("boxed-with-op-assign", true, true, cfg.tier.pick(Some(3usize), None)),
    ] {
        let m = Machine {
            actions: all_actions(with_op),
            boxed,
            faults: Arc::new(Mutex::new(Vec::new())),
            transitions: Arc::new(std::sync::atomic::AtomicU64::new(0)),
            goals: goals.clone(),
        };
        let nact = m.actions.len();
        let faults = m.faults.clone();
        let trans = m.transitions.clone();
        let mut b = m.checker().threads(rayon::current_num_threads());
        if let Some(d) = depth {
            b = b.target_max_depth(d + 1);
        }
        let checker = b.spawn_bfs().join();
        let unique = checker.unique_state_count() as u64;
        let total = checker.state_count() as u64;
        let t = trans.load(std::sync::atomic::Ordering::Relaxed);
        stats.states += unique;
        stats.transitions += t;
        stats.evaluations += t;
        stats.add(&format!("{}/unique-states", label), unique);
        stats.add(&format!("{}/generated-states", label), total);
        stats.add(&format!("{}/transitions-executed", label), t);
        stats.add(&format!("{}/max-depth", label), checker.max_depth() as u64);
        stats.add(&format!("{}/actions-per-state", label), nact as u64);
        if checker.discoveries().contains_key("conforms to the abstract map model") && faults.lock().unwrap().is_empty() {
            machinery_error("stateright reports a counterexample that the fault log does not contain");
        }
        for (h, f) in faults.lock().unwrap().iter() {
            stats.violation(violation_for(h, f));
        }
        extra.insert(label.to_string(), json!({"unique_states": unique, "generated_states": total, "transitions_executed": t, "max_depth": checker.max_depth(), "depth_bound": depth, "actions_per_state": nact}));
    }
    // 3. unmerged histories
    let depth = 3;
    let acts = if cfg.tier == Tier::Quick { reduced_actions() } else { all_actions(true) };
    let un = unmerged(&acts, depth, &goals);
    stats.add("unmerged/histories-depth", depth as u64);
    stats.add("unmerged/transitions", un.transitions);
    stats.merge(un);
    for (bit, name) in goal_names() {
        let g = goals.lock().unwrap();
        guards.push((format!("goal reached: {}", name), g.contains_key(&bit)));
        if let Some(h) = g.get(&bit) {
            stats.sample(json!({"goal": name, "first_history_reaching_it": history_json(h)}));
        }
    }
    stats.merge(scaling(cfg.tier == Tier::Thorough));
    stats.merge(context_map_forms());
    // distinct non-trivial = unique abstract states reached (each a distinct context content)
    stats.add("nontrivial-distinct", stats.states);
    Report {
        property: ID,
        level: "model_checking",
        rule: format!("explicit-state breadth-first search (stateright) from the empty context; a state is the real HashMapContext paired with the abstract map model, merged by (sorted observation of the real context, model); every transition calls the real API on a clone (set_value; `n = lit`; `n op= lit` for the 8 op-assign operators x one right-hand side per type; `n op= lit op lit` with the operator's own base operator on the right-hand side; `n = m`; `n = unbound`; clear_variables / clear_functions / clear; set_function; builtin switch; clone-and-continue) over names {{a, b}} (+ never-bound c), 15 values (ints 1, 2; floats 1.5, 1.0, 0.0, -0.0, NaN; strings `s` and `a` (the latter spells a variable name); two booleans; tuples of length 0/1/2; Empty); after every transition the return value and the complete observation (get_value of every name, both listings, call_function of every function name, builtin switch, reads through eval_with_context) are compared with the model, and the parent state must be unchanged. Closed sub-machine to closure; with op-assign inside a magnitude box (|int| <= 8, strings <= 3 bytes, closed float set): transitions leaving the box are executed and checked but not expanded; plus all unmerged histories of depth {depth} over the full action alphabet; plus 23 forms of the context_map! macro (every entry kind in every position, with and without the trailing comma, retyped duplicate keys) against the equivalent API calls; scaling families: contexts with n variables of cycling types (set, listed, looked up, retyped, cloned, cleared) and n rounds of op-assigns on one variable, n in 1..20 and up to 129 / 1..40 and up to 400. Non-trivial/distinct = unique abstract states"),
        nontrivial_set: "counter:nontrivial-distinct",
        exhaustive: true,
        bound_completed: format!("closed machine: closure; boxed machine: {}; unmerged histories: depth {}", match cfg.tier { Tier::Quick => "depth 3", Tier::Thorough => "fixpoint of the box" }, depth),
        assumptions: vec![
            "abstract map model = mc/src/refmodel/interp.rs RCtx (type-safe set, op-assign as read-operate-write)".into(),
            "merging by observation is sound only if the observation determines the future; the unmerged-history pass covers hidden state to its depth".into(),
            "op-assign whose result the reference accepts both ways (C03 list) is not compared".into(),
        ],
        stats,
        guards,
        extra: J::Object(extra),
    }
}

fn goal_names() -> Vec<(u32, &'static str)> {
    vec![
        (G_TYPE_ERROR, "an assignment of another type was refused with an expected-type error"),
        (G_OPASSIGN_REFUSED_TYPE, "an op-assign changed the type and was refused"),
        (G_CLEAR_THEN_RETYPE, "an assignment directly after a clear succeeded"),
        (G_TUPLE_LEN_CHANGE, "a tuple of another length overwrote"),
        (G_OPASSIGN_STORED, "an op-assign stored a value"),
        (G_ARITH_ERROR, "an op-assign failed with an arithmetic error"),
    ]
}

fn parse_act(s: &str) -> Option<Act> {
    // inverse of `{:?}` for Act
    let all = all_actions(true);
    all.into_iter().find(|a| format!("{:?}", a) == s)
}

pub fn replay(case: &J) -> i32 {
    let codes = case["input"]["codes"].as_array().unwrap_or_else(|| machinery_error("C04 replay: no history"));
    let mut s = St {
        real: HCtx::new(),
        model: RCtx::new(),
        history: vec![],
        fault: None,
        flags: 0,
        type_at_clear: Default::default(),
    };
    let mut st = Stats::new();
    if codes.is_empty() {
        // a scaling-family case: the families are cheap, re-run them
        st = scaling(true);
        st.merge(context_map_forms());
        return super::replay_verdict(ID, &st);
    }
    for c in codes {
        let a = parse_act(c.as_str().unwrap_or("")).unwrap_or_else(|| machinery_error("C04 replay: unknown action"));
        s = step(&s, &a);
        st.evaluations += 1;
        println!("  {} -> {}", act_show(&a), s.fault.clone().unwrap_or_else(|| "conforms".into()));
        if let Some(f) = &s.fault {
            st.violation(violation_for(&s.history, f));
            break;
        }
    }
    let _ = (RType::Int, BinOp::Add);
    super::replay_verdict(ID, &st)
}
