//! Self-test of the reference models against the documented examples: every
//! `assert_eq!(eval("<source>"), Ok(Value::<literal>))` of the repository's tests/integration.rs and
//! a table of README examples is replayed against the reference interpreter / operator table /
//! builtin table / lexer / recogniser / renderer. A disagreement here means a reference model is
//! wrong (machinery error), never an alarm about evalexpr.

use crate::engine::*;
use crate::refmodel::ast::*;
use crate::refmodel::interp::*;
use crate::refmodel::lexer;
use crate::refmodel::ops::{BinOp, UnOp, ASSIGN_BINOPS, BINOPS};
use crate::refmodel::value::RV;
use evalexpr::{build_operator_tree, DefaultNumericTypes, Node, Operator};

pub fn node_to_ast(n: &Node<DefaultNumericTypes>) -> Option<Ast> {
    use Operator as O;
    let kids = n.children();
    let bin = |op: BinOp| -> Option<Ast> {
        if kids.len() != 2 {
            return None;
        }
        Some(Ast::Bin(op, Box::new(node_to_ast(&kids[0])?), Box::new(node_to_ast(&kids[1])?)))
    };
    let asg = |op: Option<BinOp>| -> Option<Ast> {
        if kids.len() != 2 {
            return None;
        }
        match kids[0].operator() {
            O::VariableIdentifierWrite { identifier } => Some(Ast::Asg(op, identifier.clone(), Box::new(node_to_ast(&kids[1])?))),
            _ => None,
        }
    };
    match n.operator() {
        O::RootNode => match kids.len() {
            0 => Some(Ast::Unit),
            1 => node_to_ast(&kids[0]),
            _ => None,
        },
        O::Add => bin(BinOp::Add),
        O::Sub => bin(BinOp::Sub),
        O::Mul => bin(BinOp::Mul),
        O::Div => bin(BinOp::Div),
        O::Mod => bin(BinOp::Mod),
        O::Exp => bin(BinOp::Exp),
        O::Eq => bin(BinOp::Eq),
        O::Neq => bin(BinOp::Neq),
        O::Gt => bin(BinOp::Gt),
        O::Lt => bin(BinOp::Lt),
        O::Geq => bin(BinOp::Geq),
        O::Leq => bin(BinOp::Leq),
        O::And => bin(BinOp::And),
        O::Or => bin(BinOp::Or),
        O::Neg | O::Not => {
            if kids.len() != 1 {
                return None;
            }
            let op = if matches!(n.operator(), O::Neg) { UnOp::Neg } else { UnOp::Not };
            Some(Ast::Pre(op, Box::new(node_to_ast(&kids[0])?)))
        },
        O::Assign => asg(None),
        O::AddAssign => asg(Some(BinOp::Add)),
        O::SubAssign => asg(Some(BinOp::Sub)),
        O::MulAssign => asg(Some(BinOp::Mul)),
        O::DivAssign => asg(Some(BinOp::Div)),
        O::ModAssign => asg(Some(BinOp::Mod)),
        O::ExpAssign => asg(Some(BinOp::Exp)),
        O::AndAssign => asg(Some(BinOp::And)),
        O::OrAssign => asg(Some(BinOp::Or)),
        O::Tuple => Some(Ast::Tuple(kids.iter().map(node_to_ast).collect::<Option<Vec<_>>>()?)),
        O::Chain => Some(Ast::Chain(kids.iter().map(node_to_ast).collect::<Option<Vec<_>>>()?)),
        O::Const { value } => Some(Ast::Lit(RV::from_ev(value))),
        O::VariableIdentifierRead { identifier } => Some(Ast::Var(identifier.clone())),
        O::VariableIdentifierWrite { .. } => None,
        O::FunctionIdentifier { identifier } => {
            if kids.len() != 1 {
                return None;
            }
            Some(Ast::Call(identifier.clone(), Box::new(node_to_ast(&kids[0])?)))
        },
    }
}

/// Parses `Value::Int(3)`, `Value::Float(-3.6)`, `Value::Boolean(true)`, `Value::Empty`,
/// `Value::from_int(3)`, `Value::from_float(1.5)`, `Value::from(true)` — nothing else.
fn parse_expected(s: &str) -> Option<RV> {
    let s = s.trim();
    let inner = |prefix: &str| -> Option<&str> { s.strip_prefix(prefix).and_then(|r| r.strip_suffix(')')) };
    if let Some(x) = inner("Value::Int(").or_else(|| inner("Value::from_int(")) {
        return x.trim().parse::<i64>().ok().map(RV::Int);
    }
    if let Some(x) = inner("Value::Float(").or_else(|| inner("Value::from_float(")) {
        let x = x.trim();
        if x.bytes().all(|b| b.is_ascii_digit() || b == b'.' || b == b'-' || b == b'e') && x.contains('.') {
            return x.parse::<f64>().ok().map(RV::Float);
        }
        return None;
    }
    if let Some(x) = inner("Value::Boolean(").or_else(|| inner("Value::from(")) {
        return match x.trim() {
            "true" => Some(RV::Bool(true)),
            "false" => Some(RV::Bool(false)),
            _ => None,
        };
    }
    if s == "Value::Empty" {
        return Some(RV::Empty);
    }
    None
}

/// Extracts (source, expected) pairs from `assert_eq!(eval("..."), Ok(<expected>));` lines.
fn harvest(text: &str) -> Vec<(String, RV)> {
    let mut out = Vec::new();
    for line in text.lines() {
        let l = line.trim();
        let Some(rest) = l.strip_prefix("assert_eq!(eval(\"") else { continue };
        // the source is a Rust string literal: find its closing quote, honouring backslash escapes
        let mut src = String::new();
        let mut chars = rest.chars();
        let mut closed = false;
        while let Some(c) = chars.next() {
            match c {
                '\\' => match chars.next() {
                    Some('n') => src.push('\n'),
                    Some('t') => src.push('\t'),
                    Some(o) => src.push(o),
                    None => break,
                },
                '"' => {
                    closed = true;
                    break;
                },
                c => src.push(c),
            }
        }
        if !closed {
            continue;
        }
        let tail: String = chars.collect();
        let Some(exp) = tail.trim().strip_prefix("), Ok(").and_then(|r| r.strip_suffix("));")) else { continue };
        if let Some(v) = parse_expected(exp) {
            out.push((src, v));
        }
    }
    out
}

fn readme_table() -> Vec<(&'static str, RV)> {
    vec![
        ("1 + 2 + 3", RV::Int(6)),
        ("1 /* inline comments are supported */ - 2 * 3 // as are end-of-line comments", RV::Int(-5)),
        ("1.0 + 2 * 3", RV::Float(7.0)),
        ("true && 4 > 2", RV::Bool(true)),
        ("1 / 2", RV::Int(0)),
        ("1.0 / 2", RV::Float(0.5)),
        ("2^2", RV::Float(4.0)),
        ("1, \"b\", 3", RV::Tuple(vec![RV::Int(1), RV::Str("b".into()), RV::Int(3)])),
        ("1, 2, (true, \"b\")", RV::Tuple(vec![RV::Int(1), RV::Int(2), RV::Tuple(vec![RV::Bool(true), RV::Str("b".into())])])),
        ("a = 2; a *= 2; a += 2; a", RV::Int(6)),
        ("a = 2.2; a /= 2.0 / 4 + 1; a", RV::Float(2.2 / (2.0 / 4.0 + 1.0))),
        ("a = \"abc\"; a += \"def\"; a", RV::Str("abcdef".into())),
        ("a = true; a &&= false; a", RV::Bool(false)),
        ("1;2;3;4;", RV::Empty),
        ("1;2;3;4", RV::Int(4)),
        ("a = 5;", RV::Empty),
        ("hp = 1; max_hp = 5; heal_amount = 3; hp = min(hp + heal_amount, max_hp); hp", RV::Int(4)),
        ("max(1,3)", RV::Int(3)),
        ("min(4.0, 3)", RV::Int(3)),
        ("max(4.0, 3)", RV::Float(4.0)),
        ("typeof(\"s\")", RV::Str("string".into())),
        ("if(true, 1, 2)", RV::Int(1)),
        ("len(\"abc\")", RV::Int(3)),
        ("len((1, 2, 3))", RV::Int(3)),
        ("contains((1, 2, 3), 2)", RV::Bool(true)),
        ("contains_any((1, 2, 3), (5, 3))", RV::Bool(true)),
        ("str::to_uppercase(\"ab\")", RV::Str("AB".into())),
        ("str::trim(\"  x \")", RV::Str("x".into())),
        ("str::from(1.5)", RV::Str("1.5".into())),
        ("str::substring(\"hello\", 1, 3)", RV::Str("el".into())),
        ("str::substring(\"hello\", 2)", RV::Str("llo".into())),
        ("bitand(6, 3)", RV::Int(2)),
        ("bitor(6, 3)", RV::Int(7)),
        ("bitxor(6, 3)", RV::Int(5)),
        ("bitnot(0)", RV::Int(-1)),
        ("shl(1, 4)", RV::Int(16)),
        ("shr(-16, 2)", RV::Int(-4)),
        ("math::abs(-3)", RV::Int(3)),
        ("math::abs(-3.5)", RV::Float(3.5)),
        ("floor(1.5)", RV::Float(1.0)),
        ("round(2.5)", RV::Float(3.0)),
        ("ceil(1.2)", RV::Float(2.0)),
        ("math::pow(2, 10)", RV::Float(1024.0)),
        ("math::atan2(1, 0)", RV::Float(std::f64::consts::FRAC_PI_2)),
        ("math::log(8, 2)", RV::Float(8f64.log(2.0))),
        ("math::hypot(3, 4)", RV::Float(5.0)),
        ("math::is_nan(0.0/0.0)", RV::Bool(true)),
        ("math::is_normal(0)", RV::Bool(false)),
        ("0xfe02", RV::Int(0xfe02)),
        ("-0x1e", RV::Int(-0x1e)),
        ("3.", RV::Float(3.0)),
        (".35", RV::Float(0.35)),
        ("23e4", RV::Float(23e4)),
        ("-2e-3", RV::Float(-2e-3)),
        ("3.54e+2", RV::Float(3.54e2)),
        ("\"a\\\"b\\\\c\"", RV::Str("a\"b\\c".into())),
        ("(3, 55.0, false, ())", RV::Tuple(vec![RV::Int(3), RV::Float(55.0), RV::Bool(false), RV::Empty])),
        ("()", RV::Empty),
    ]
}

pub fn run() -> i32 {
    let mut examples: Vec<(String, RV)> = readme_table().into_iter().map(|(s, v)| (s.to_string(), v)).collect();
    let text = std::fs::read_to_string("/repo/tests/integration.rs").unwrap_or_default();
    let harvested = harvest(&text);
    let nh = harvested.len();
    examples.extend(harvested);
    let mut failures: Vec<String> = Vec::new();
    let (mut interp_ok, mut lex_ok, mut render_ok, mut recog_ok, mut skipped) = (0, 0, 0, 0, 0);
    for (src, want) in &examples {
        let tree = match build_operator_tree::<DefaultNumericTypes>(src) {
            Ok(t) => t,
            Err(_) => {
                skipped += 1;
                continue;
            },
        };
        let Some(ast) = node_to_ast(&tree) else {
            skipped += 1;
            continue;
        };
        // 1. reference interpreter (operator table, builtin table, type-safe store) against the documented value
        let mut rc = RCtx::new();
        let got = rc.eval(&ast, Mode::Mutable);
        if rc.unclaimed {
            skipped += 1;
        } else {
            match &got {
                Ok(v) if v.bits_eq(want) => interp_ok += 1,
                other => failures.push(format!("reference interpreter: `{}` documented as {} but the reference says {}", src, want.key(), describe(other))),
            }
        }
        // 2. reference lexer: same literals and identifiers as the tree has
        match lexer::lex(src) {
            Ok(toks) => {
                let want_leaves: Vec<lexer::Leaf> = toks.iter().filter_map(|t| t.leaf()).collect();
                let mut real = Vec::new();
                lexer::real_leaves(&tree, &mut real);
                if want_leaves.len() == real.len() && want_leaves.iter().zip(&real).all(|(a, b)| a.same(b)) {
                    lex_ok += 1;
                } else {
                    failures.push(format!("reference lexer: `{}` leaves {:?} but the documented-valid tree has {:?}", src, want_leaves.iter().map(|l| l.show()).collect::<Vec<_>>(), real.iter().map(|l| l.show()).collect::<Vec<_>>()));
                }
            },
            Err(f) => failures.push(format!("reference lexer rejects the documented example `{}`: {:?}", src, f)),
        }
        // 3. renderer: the minimal rendering of the AST parses back to the same tree
        let rendered = join_spaced(&Renderer::render(&ast, Parens::Minimal).out);
        let lits_ok = rendered_expressible(&ast);
        if lits_ok {
            match build_operator_tree::<DefaultNumericTypes>(&rendered) {
                Ok(t2) if node_to_nt(&t2) == ast_to_nt(&ast) => render_ok += 1,
                other => failures.push(format!("renderer: `{}` rendered as `{}` parses to {:?}, expected {}", src, rendered, other.map(|t| node_to_nt(&t).show()), ast_to_nt(&ast).show())),
            }
        }
        // 4. recogniser: a documented valid expression is well-formed
        if let Some(ts) = to_recogniser_tokens(src) {
            if crate::refmodel::recogniser::classify(&ts) == crate::refmodel::recogniser::Class::WellFormed {
                recog_ok += 1;
            } else {
                failures.push(format!("recogniser: documented example `{}` classified as not well-formed", src));
            }
        }
    }
    // README counter-examples for the recogniser
    use crate::refmodel::recogniser::{classify, Class, T};
    for (ts, want) in [
        (vec![T::Ident("a"), T::Ident("v")], Class::WellFormed),
        (vec![T::Ident("a"), T::LParen, T::Lit("3"), T::Comma, T::Lit("true"), T::RParen], Class::WellFormed),
        (vec![T::Ident("a"), T::Ident("b"), T::Lit("4")], Class::WellFormed),
        (vec![T::Lit("5"), T::Ident("b")], Class::IllFormed),
        (vec![T::Lit("12"), T::Lit("3")], Class::IllFormed),
        (vec![T::Ident("a"), T::Lit("5"), T::Lit("6")], Class::IllFormed),
        (vec![T::Lit("4"), T::LParen, T::Lit("5"), T::RParen], Class::IllFormed),
    ] {
        if classify(&ts) != want {
            failures.push(format!("recogniser: README example {:?} should be {:?}", ts.iter().map(|t| t.text()).collect::<Vec<_>>(), want));
        }
    }
    // operator alphabet sanity
    if BINOPS.len() != 14 || ASSIGN_BINOPS.len() != 8 {
        failures.push("operator alphabets have the wrong size".into());
    }
    println!(
        "selftest: {} documented examples ({} harvested from tests/integration.rs, {} from the README table); reference interpreter agrees on {}, lexer on {}, renderer round-trips {}, recogniser accepts {}; {} skipped (outside a model's domain)",
        examples.len(),
        nh,
        examples.len() - nh,
        interp_ok,
        lex_ok,
        render_ok,
        recog_ok,
        skipped
    );
    if failures.is_empty() && interp_ok >= 150 {
        println!("selftest ok");
        EXIT_OK
    } else {
        for f in failures.iter().take(20) {
            println!("  {}", f);
        }
        println!("MACHINERY-ERROR reference models disagree with documented examples ({} failures, {} interpreter agreements)", failures.len(), interp_ok);
        EXIT_MACHINERY
    }
}

fn rendered_expressible(a: &Ast) -> bool {
    match a {
        Ast::Lit(v) => v.literal().is_some() && !matches!(v, RV::Tuple(_) | RV::Empty),
        Ast::Var(_) | Ast::Unit => true,
        Ast::Bin(_, l, r) => rendered_expressible(l) && rendered_expressible(r),
        Ast::Pre(_, e) | Ast::Asg(_, _, e) | Ast::Call(_, e) | Ast::Partial(_, e) => rendered_expressible(e),
        Ast::Tuple(es) | Ast::Chain(es) => es.iter().all(rendered_expressible),
    }
}

/// Token classes of a source for the recogniser (via the reference lexer); None if it has tokens the
/// recogniser alphabet does not model.
fn to_recogniser_tokens(src: &str) -> Option<Vec<crate::refmodel::recogniser::T>> {
    use crate::refmodel::recogniser::T;
    let toks = lexer::lex(src).ok()?;
    let mut out = Vec::new();
    for t in toks {
        out.push(match t {
            lexer::LTok::Int(_) | lexer::LTok::Float(_) | lexer::LTok::Bool(_) | lexer::LTok::Str(_) => T::Lit("1"),
            lexer::LTok::Ident(_) => T::Ident("a"),
            lexer::LTok::Op("-") => T::Minus,
            lexer::LTok::Op("!") => T::Not,
            lexer::LTok::Op("(") => T::LParen,
            lexer::LTok::Op(")") => T::RParen,
            lexer::LTok::Op(",") => T::Comma,
            lexer::LTok::Op(";") => T::Semi,
            lexer::LTok::Op(_) => T::Bin("+"),
        });
    }
    Some(out)
}
