//! C15 — expressions, values and contexts are safe to share across threads.
//! (a) Send + Sync of the eight public data types: decided by the type checker (compile probe crate).
//! (b) every interleaving, up to a preemption bound, of 2–3 real OS threads evaluating shared trees
//!     against shared contexts; scheduling points are inside harness-owned user functions.

use super::common::*;
use crate::engine::sched::{self, Execution};
use crate::engine::*;
use crate::refmodel::value::RV;
use evalexpr::{build_operator_tree, ContextWithMutableFunctions, ContextWithMutableVariables, DefaultNumericTypes, Function, Value};
use serde_json::{json, Value as J};
use std::cell::RefCell;
use std::collections::BTreeSet;
use std::sync::Arc;

const ID: &str = "C15";

thread_local! {
    static CALLS: RefCell<Vec<String>> = const { RefCell::new(Vec::new()) };
}

/// What one thread observes: its result and its own ordered call log.
type Obs = (String, Vec<String>);

fn take_calls() -> Vec<String> {
    CALLS.with(|c| std::mem::take(&mut *c.borrow_mut()))
}

/// The shared context: `y(v)` logs, yields to the scheduler and returns v; `z(v)` yields twice and
/// returns v + 1; variables a, b.
fn shared_context() -> HCtx {
    let mut c = HCtx::new();
    c.set_value("a".into(), Value::Int(10)).unwrap();
    c.set_value("b".into(), Value::String("s".into())).unwrap();
    c.set_function(
        "y".into(),
        Function::new(|v| {
            let k = RV::from_ev(v).key();
            CALLS.with(|c| c.borrow_mut().push(format!("y({})", k)));
            sched::note_event(format!("y({})", k));
            sched::yield_now();
            Ok(v.clone())
        }),
    )
    .unwrap();
    c.set_function(
        "z".into(),
        Function::new(|v| {
            let k = RV::from_ev(v).key();
            CALLS.with(|c| c.borrow_mut().push(format!("z({})", k)));
            sched::note_event(format!("z({})", k));
            sched::yield_now();
            let r = match v {
                Value::Int(i) => Value::Int(i64::wrapping_add(*i, 1)),
                other => other.clone(),
            };
            sched::yield_now();
            Ok(r)
        }),
    )
    .unwrap();
    c
}

struct Workload {
    name: &'static str,
    threads: usize,
    /// builds the shared objects afresh and returns body(tid) -> observation; a body must be
    /// deterministic when run alone
    make: Arc<dyn Fn() -> Arc<dyn Fn(usize) -> Obs + Send + Sync> + Send + Sync>,
    description: String,
}

#[derive(Clone)]
enum Kind {
    /// all threads evaluate the same tree against the same context
    SameTree(String),
    /// thread i evaluates tree i against the same context
    PerThreadTrees(Vec<String>),
    /// thread i tokenizes, builds and evaluates source i against the same context
    StringLevel(Vec<String>),
    /// all threads evaluate the same tree, each against its own mutable clone of the shared context
    MutableClones(String),
    /// thread 0 formats, clones and iterates the shared tree and context while the others evaluate
    FormatWhileEvaluating(String),
}

/// A workload source that does not precompile makes that workload unusable (its tree shape is another
/// property's business); the workload is then skipped and counted.
fn tree_of(src: &str) -> Arc<ENode> {
    match build_operator_tree::<DefaultNumericTypes>(src) {
        Ok(t) => Arc::new(t),
        Err(e) => std::panic::panic_any(SkipWorkload(format!("{:?}", e))),
    }
}

struct SkipWorkload(#[allow(dead_code)] String);

/// Builds fresh shared objects (context, trees) and returns the per-thread body.
fn make_body(kind: &Kind) -> Arc<dyn Fn(usize) -> Obs + Send + Sync> {
    let c = Arc::new(shared_context());
    match kind.clone() {
        Kind::SameTree(src) => {
            let tree = tree_of(&src);
            Arc::new(move |_tid| {
                let r = tree.eval_with_context(&*c);
                (res_key(&r), take_calls())
            })
        },
        Kind::PerThreadTrees(srcs) => {
            let trees: Vec<Arc<ENode>> = srcs.iter().map(|s| tree_of(s)).collect();
            Arc::new(move |tid| {
                let r = trees[tid].eval_with_context(&*c);
                (res_key(&r), take_calls())
            })
        },
        Kind::StringLevel(srcs) => Arc::new(move |tid| {
            let r = evalexpr::eval_with_context(&srcs[tid], &*c);
            (res_key(&r), take_calls())
        }),
        Kind::MutableClones(src) => {
            let tree = tree_of(&src);
            Arc::new(move |_tid| {
                let mut mine = (*c).clone();
                let r = tree.eval_with_context_mut(&mut mine);
                (format!("{} / {:?}", res_key(&r), observe_vars(&mine)), take_calls())
            })
        },
        Kind::FormatWhileEvaluating(src) => {
            let tree = tree_of(&src);
            Arc::new(move |tid| {
                if tid == 0 {
                    let mut parts = Vec::new();
                    parts.push(format!("{}", tree));
                    sched::yield_now();
                    parts.push(format!("{:?}", tree.clone()));
                    sched::yield_now();
                    parts.push(format!("{:?}", observe_vars(&c.clone())));
                    sched::yield_now();
                    parts.push(format!("{:?}", tree.iter_identifiers().collect::<Vec<_>>()));
                    (parts.join(" | "), take_calls())
                } else {
                    let r = tree.eval_with_context(&*c);
                    (res_key(&r), take_calls())
                }
            })
        },
    }
}

fn workloads() -> Vec<Workload> {
    let mut out = Vec::new();
    let mut add = |name: &'static str, threads: usize, kind: Kind, description: String| {
        out.push(Workload {
            name,
            threads,
            make: Arc::new(move || make_body(&kind)),
            description,
        });
    };
    for (name, src, n) in [
        ("same-tree-same-context-2", "y(1) + y(a) * y(3)", 2usize),
        ("same-tree-same-context-3", "y(1) + y(a)", 3),
        ("nested-calls-2", "z(y(1)) + len(b + y(\"t\"))", 2),
        ("failing-evaluation-2", "y(1) + (y(2) , y(a) / 0) ; y(4)", 2),
        ("alternating-functions-2", "y(1) + z(2) + y(3) + z(4)", 2),
    ] {
        add(name, n, Kind::SameTree(src.into()), format!("{} threads evaluate the same Arc<Node> `{}` against the same Arc<HashMapContext>", n, src));
    }
    let depth = 100;
    add(
        "deep-nesting-2",
        2,
        Kind::SameTree(format!("{}y(1){}", "-(".repeat(depth), ")".repeat(depth))),
        format!("2 threads evaluate the same tree of nesting depth {} (`-(` x {} around y(1)) against the same context", depth, depth),
    );
    add(
        "deep-nesting-3",
        3,
        Kind::SameTree(format!("{}y(1) + y(2){}", "(0+".repeat(50), ")".repeat(50))),
        "3 threads evaluate the same tree of nesting depth 50 with two calls at the bottom".into(),
    );
    add(
        "many-threads-5",
        5,
        Kind::SameTree("(y(1), (y(a), y(b)))".into()),
        "5 threads evaluate the same nested-tuple tree against the same context (explored with preemption bound <= 1)".into(),
    );
    add(
        "different-trees-same-context-3",
        3,
        Kind::PerThreadTrees(vec!["y(1) + y(2)".into(), "y(a) * z(3)".into(), "(y(b), y(true))".into()]),
        "3 threads evaluate different trees against the same context".into(),
    );
    add(
        "one-fails-others-succeed-3",
        3,
        Kind::PerThreadTrees(vec!["y(1) + y(2) / (y(a) - a)".into(), "y(a) * z(3) + y(a)".into(), "a + len(b) + y(0)".into()]),
        "3 threads, same context: thread 0 fails with a division by zero while threads 1 and 2 succeed".into(),
    );
    add(
        "string-level-2",
        2,
        Kind::StringLevel(vec!["y(1) + y(0x1f) + y(1e-3)".into(), "y(\"a\\\\b\") + y(b) ; y(a)".into()]),
        "2 threads tokenize, build and evaluate strings against the same context".into(),
    );
    add(
        "shared-tree-mutable-clones-2",
        2,
        Kind::MutableClones("x = y(1); x += y(a); a += y(x); (x, a)".into()),
        "2 threads evaluate the same tree with assignments, each against its own clone of the shared context".into(),
    );
    add(
        "clone-and-format-while-evaluating-3",
        3,
        Kind::FormatWhileEvaluating("y(1) + y(a) * y(3)".into()),
        "1 thread formats, clones and iterates the shared tree and context while 2 threads evaluate".into(),
    );
    out
}

fn sendsync_probe(st: &mut Stats) -> String {
    let out = std::process::Command::new("cargo")
        .args(["check", "--offline", "--quiet"])
        .current_dir(format!("{}/mc-sendsync", VERIF_DIR))
        .env("CARGO_NET_OFFLINE", "true")
        .output();
    st.evaluations += 8;
    let out = match out {
        Ok(o) => o,
        Err(e) => machinery_error(&format!("cannot run cargo check for the Send+Sync probe: {e}")),
    };
    let text = String::from_utf8_lossy(&out.stderr).to_string();
    if out.status.success() {
        st.add("sendsync/types-checked", 8);
        return "cargo check of mc-sendsync succeeded: Node, Value, EvalexprError, Function, Operator, HashMapContext, EmptyContext, EmptyContextWithBuiltinFunctions are Send + Sync".into();
    }
    if text.contains("E0277") && (text.contains("cannot be sent between threads safely") || text.contains("cannot be shared between threads safely")) {
        let excerpt: String = text.lines().filter(|l| l.contains("error") || l.contains("cannot be") || l.contains("-->")).take(12).collect::<Vec<_>>().join("\n");
        st.violation(Violation {
            property: ID,
            kind: "not-send-sync".into(),
            input: json!({"probe": "mc-sendsync"}),
            expected: "all eight public data types are Send + Sync".into(),
            actual: excerpt,
            test: "fn ok<T: Send + Sync>() {}\n#[test]\nfn c15_replay() {\n    use evalexpr::*;\n    ok::<Node>(); ok::<Value>(); ok::<EvalexprError>(); ok::<Function<DefaultNumericTypes>>(); ok::<Operator>(); ok::<HashMapContext>();\n    ok::<EmptyContext<DefaultNumericTypes>>(); ok::<EmptyContextWithBuiltinFunctions<DefaultNumericTypes>>();\n}\n".into(),
        });
        return "cargo check of mc-sendsync failed with E0277".into();
    }
    machinery_error(&format!("Send+Sync probe crate does not build for another reason:\n{}", text.chars().take(1500).collect::<String>()))
}

fn explore_workload(w: &Workload, bound: Option<usize>, cap: u64, st: &mut Stats) -> J {
    // sequential reference: each body alone, on this thread (yield points are no-ops here), on freshly
    // built shared objects; twice, to make sure the workload itself is deterministic
    let seq_run = || -> Vec<Obs> {
        let body = (w.make)();
        (0..w.threads).map(|t| body(t)).collect()
    };
    let seq: Vec<Obs> = seq_run();
    if seq != seq_run() {
        machinery_error(&format!("workload {} is not deterministic when run sequentially", w.name));
    }
    let make = w.make.clone();
    let make_run_body = move || -> Arc<dyn Fn(usize, &Arc<sched::Sched>) -> Obs + Send + Sync> {
        let body = make();
        Arc::new(move |tid, _s| {
            take_calls();
            body(tid)
        })
    };
    // replay determinism: schedule 0 twice
    let a = sched::run_once(w.threads, &[], make_run_body());
    let b = sched::run_once(w.threads, &[], make_run_body());
    if a.choices != b.choices || a.events != b.events || a.results != b.results {
        machinery_error(&format!("workload {}: replaying the default schedule gave different observations", w.name));
    }
    let mut interleavings: BTreeSet<Vec<(usize, String)>> = BTreeSet::new();
    let mut outcomes: BTreeSet<Vec<Obs>> = BTreeSet::new();
    let mut degraded = 0u64;
    let mut violations: Vec<Violation> = Vec::new();
    let mut max_points = 0;
    let mut visit = |x: &Execution<Obs>| {
        if let Some(d) = &x.divergence {
            if x.degraded || degraded > 0 {
                // the watchdog let two threads run at once earlier: replayed prefixes may no longer fit
                degraded += 1;
                return;
            }
            machinery_error(&format!("workload {}: schedule replay diverged: {}", w.name, d));
        }
        interleavings.insert(x.events.clone());
        outcomes.insert(x.results.clone());
        max_points = max_points.max(x.points.len());
        if x.degraded {
            degraded += 1;
        }
        if x.results != seq && violations.len() < 3 {
            violations.push(Violation {
                property: ID,
                kind: "concurrent-result-differs-from-sequential".into(),
                input: json!({"workload": w.name, "schedule": x.choices, "baton_order": x.order}),
                expected: format!("every thread observes what it observes alone: {:?}", seq),
                actual: format!("{:?} (global order of calls: {:?})", x.results, x.events),
                test: test_wrap("c15_replay", &format!("    // {}\n    // run the threads so that they take turns in this order at the yield points of y/z: {:?}\n", w.description, x.order)),
            });
        }
    };
    let (count, capped) = sched::explore(w.threads, bound, cap, &make_run_body, &mut visit);
    st.evaluations += count;
    st.transitions += count;
    st.add(&format!("schedules/{}", w.name), count);
    st.add("schedules-total", count);
    st.add("distinct-interleavings-total", interleavings.len() as u64);
    if capped {
        st.caps_hit.push(format!("{}: schedule cap {} reached under preemption bound {:?}", w.name, cap, bound));
    }
    if degraded > 0 {
        st.add("degraded-determinism-executions", degraded);
    }
    for v in violations {
        st.violation(v);
    }
    json!({"workload": w.name, "description": w.description, "threads": w.threads, "preemption_bound": bound.map(|b| json!(b)).unwrap_or(json!("unbounded")),
        "schedules": count, "capped": capped, "max_scheduling_points": max_points, "distinct_interleavings_of_calls": interleavings.len(), "distinct_outcomes": outcomes.len(), "degraded": degraded})
}

/// Free-running pass, used only when the loom pass reports itself not applicable although the tree contains
/// synchronisation primitives (the driver sets EVX_C15_FREE_RUNNING=1): 8 real threads evaluate pairs of
/// shared trees over every operator class and many builtins, 20000 rounds each, against the sequential
/// results. This is *sampling*, not exploration — it can only ever add a genuine counterexample (results
/// that differ from the sequential run), never contribute to a "holds" verdict, and is labelled so.
fn free_running_pass(stats: &mut Stats) {
    use std::sync::Arc;
    let pairs: [(&str, &str, &str); 3] = [
        ("operators-and-builtins", "(str::to_uppercase(str::from(x) + \"ab\"), x ^ 2, math::pow(x, 2), (1; 2; 3; x), if(x > 150, 1, 2), str::from((x, x + 1, \"t\")), contains((x, 2), x), min(x, 3), max(2.5, x), x % 7, -x, x < 150, str::trim(\" x \"), len(s), bitand(x, 6), shl(x, 2), math::sqrt(x), floor(x / 3.0), typeof(x), (x, (x, 1)) == (x, (x, 1)), s + \"z\", !(x == 1), x / 7 * 3 - 1)", "(str::to_uppercase(\"xyz\" + str::from(x)), x ^ 3, math::pow(2, x % 5), (x; 7), if(x > 150, \"a\", \"b\"), str::from((x, (x, 2.5))), contains((1, 2, 3), x), min(x, 300, 5), max(x, 1), x % 9, -(x + 1), x >= 200, str::trim(\"\ty\"), len((x, 1, 2)), bitor(x, 1), shr(x, 1), math::ln(x), ceil(x / 7.0), typeof(s), (x, 2) != (x, 3), \"q\" + s, !(x != 1), x * 3 / 7 + 1)"),
        ("bulk-math", "(math::sin(2.0), math::cos(2.75), math::ln(4.0), math::exp(4.25), math::sqrt(5.5), math::tan(5.75), math::atan(6.5), math::cbrt(7.25), math::sinh(8.0), math::log2(9.25), math::log10(10.0), math::exp2(10.25), math::sin(11.0), math::cos(11.75), math::ln(13.0), math::exp(13.25), math::sqrt(14.5), math::tan(14.75), math::atan(15.5), math::cbrt(16.25), math::sinh(17.0), math::log2(18.25), math::log10(19.0), math::exp2(19.25))", "(math::sin(5.0), math::cos(5.75), math::ln(7.0), math::exp(7.25), math::sqrt(8.5), math::tan(8.75), math::atan(9.5), math::cbrt(10.25), math::sinh(11.0), math::log2(12.25), math::log10(13.0), math::exp2(13.25), math::sin(14.0), math::cos(14.75), math::ln(16.0), math::exp(16.25), math::sqrt(17.5), math::tan(17.75), math::atan(18.5), math::cbrt(19.25), math::sinh(20.0), math::log2(21.25), math::log10(22.0), math::exp2(22.25))"),
        ("bulk-case-conversion", "(str::to_lowercase(\"Alpha-Subject-Number-00-With-Enough-Characters-To-Be-Long\"), str::to_uppercase(\"Alpha-Subject-Number-01-With-Enough-Characters-To-Be-Long\"), str::to_lowercase(\"Alpha-Subject-Number-02-With-Enough-Characters-To-Be-Long\"), str::to_uppercase(\"Alpha-Subject-Number-03-With-Enough-Characters-To-Be-Long\"), str::to_lowercase(\"Alpha-Subject-Number-04-With-Enough-Characters-To-Be-Long\"), str::to_uppercase(\"Alpha-Subject-Number-05-With-Enough-Characters-To-Be-Long\"), str::to_lowercase(\"Alpha-Subject-Number-06-With-Enough-Characters-To-Be-Long\"), str::to_uppercase(\"Alpha-Subject-Number-07-With-Enough-Characters-To-Be-Long\"), str::to_lowercase(\"Alpha-Subject-Number-08-With-Enough-Characters-To-Be-Long\"), str::to_uppercase(\"Alpha-Subject-Number-09-With-Enough-Characters-To-Be-Long\"), str::to_lowercase(\"Alpha-Subject-Number-10-With-Enough-Characters-To-Be-Long\"), str::to_uppercase(\"Alpha-Subject-Number-11-With-Enough-Characters-To-Be-Long\"), str::to_lowercase(\"Alpha-Subject-Number-12-With-Enough-Characters-To-Be-Long\"), str::to_uppercase(\"Alpha-Subject-Number-13-With-Enough-Characters-To-Be-Long\"), str::to_lowercase(\"Alpha-Subject-Number-14-With-Enough-Characters-To-Be-Long\"), str::to_uppercase(\"Alpha-Subject-Number-15-With-Enough-Characters-To-Be-Long\"), str::to_lowercase(\"Alpha-Subject-Number-16-With-Enough-Characters-To-Be-Long\"), str::to_uppercase(\"Alpha-Subject-Number-17-With-Enough-Characters-To-Be-Long\"), str::to_lowercase(\"Alpha-Subject-Number-18-With-Enough-Characters-To-Be-Long\"), str::to_uppercase(\"Alpha-Subject-Number-19-With-Enough-Characters-To-Be-Long\"))", "(str::to_lowercase(\"Beta-Subject-Number-00-With-Enough-Characters-To-Be-Long\"), str::to_uppercase(\"Beta-Subject-Number-01-With-Enough-Characters-To-Be-Long\"), str::to_lowercase(\"Beta-Subject-Number-02-With-Enough-Characters-To-Be-Long\"), str::to_uppercase(\"Beta-Subject-Number-03-With-Enough-Characters-To-Be-Long\"), str::to_lowercase(\"Beta-Subject-Number-04-With-Enough-Characters-To-Be-Long\"), str::to_uppercase(\"Beta-Subject-Number-05-With-Enough-Characters-To-Be-Long\"), str::to_lowercase(\"Beta-Subject-Number-06-With-Enough-Characters-To-Be-Long\"), str::to_uppercase(\"Beta-Subject-Number-07-With-Enough-Characters-To-Be-Long\"), str::to_lowercase(\"Beta-Subject-Number-08-With-Enough-Characters-To-Be-Long\"), str::to_uppercase(\"Beta-Subject-Number-09-With-Enough-Characters-To-Be-Long\"), str::to_lowercase(\"Beta-Subject-Number-10-With-Enough-Characters-To-Be-Long\"), str::to_uppercase(\"Beta-Subject-Number-11-With-Enough-Characters-To-Be-Long\"), str::to_lowercase(\"Beta-Subject-Number-12-With-Enough-Characters-To-Be-Long\"), str::to_uppercase(\"Beta-Subject-Number-13-With-Enough-Characters-To-Be-Long\"), str::to_lowercase(\"Beta-Subject-Number-14-With-Enough-Characters-To-Be-Long\"), str::to_uppercase(\"Beta-Subject-Number-15-With-Enough-Characters-To-Be-Long\"), str::to_lowercase(\"Beta-Subject-Number-16-With-Enough-Characters-To-Be-Long\"), str::to_uppercase(\"Beta-Subject-Number-17-With-Enough-Characters-To-Be-Long\"), str::to_lowercase(\"Beta-Subject-Number-18-With-Enough-Characters-To-Be-Long\"), str::to_uppercase(\"Beta-Subject-Number-19-With-Enough-Characters-To-Be-Long\"))"),
    ];
    // user functions that panic, with distinct messages, in both trees: whatever the library does with a
    // panicking function (today the panic propagates), every thread must see what it sees sequentially
    {
        let mut ctx = HCtx::new();
        ctx.set_value("x".into(), Value::Int(100)).unwrap();
        ctx.set_function("pa".into(), Function::new(|_| panic!("user function pa failed: A"))).unwrap();
        ctx.set_function("pb".into(), Function::new(|_| panic!("user function pb failed: B"))).unwrap();
        if let (Ok(ta), Ok(tb)) = (build_operator_tree::<DefaultNumericTypes>("x + pa(1)"), build_operator_tree::<DefaultNumericTypes>("pb(2) * x")) {
            let observe = |t: &ENode, c: &HCtx| -> String {
                match std::panic::catch_unwind(std::panic::AssertUnwindSafe(|| t.eval_with_context(c))) {
                    Ok(r) => format!("{:?}", r),
                    Err(p) => format!("panic: {}", p.downcast_ref::<&str>().map(|s| s.to_string()).or_else(|| p.downcast_ref::<String>().cloned()).unwrap_or_default()),
                }
            };
            let want = vec![observe(&ta, &ctx), observe(&tb, &ctx)];
            let shared = Arc::new((vec![ta, tb], ctx, want));
            let barrier = Arc::new(std::sync::Barrier::new(8));
            let handles: Vec<_> = (0..8usize)
                .map(|tid| {
                    let shared = shared.clone();
                    let barrier = barrier.clone();
                    std::thread::spawn(move || -> Option<String> {
                        barrier.wait();
                        for round in 0..2000usize {
                            let k = (tid + round) % 2;
                            let got = match std::panic::catch_unwind(std::panic::AssertUnwindSafe(|| shared.0[k].eval_with_context(&shared.1))) {
                                Ok(r) => format!("{:?}", r),
                                Err(p) => format!("panic: {}", p.downcast_ref::<&str>().map(|s| s.to_string()).or_else(|| p.downcast_ref::<String>().cloned()).unwrap_or_default()),
                            };
                            if got != shared.2[k] {
                                return Some(format!("thread {} round {}: {} where the sequential run gives {}", tid, round, got, shared.2[k]));
                            }
                        }
                        None
                    })
                })
                .collect();
            stats.count("free-running/workloads");
            stats.evaluations += 8 * 2000;
            for h in handles {
                if let Ok(Some(diff)) = h.join() {
                    stats.violation(Violation {
                        property: ID,
                        kind: "free-running-result-differs-from-sequential".into(),
                        input: json!({"engine": "free-running threads (sampling)", "workload": "panicking-user-functions", "sources": ["x + pa(1)", "pb(2) * x"]}),
                        expected: "every thread observes the sequential results".into(),
                        actual: diff,
                        test: String::new(),
                    });
                    break;
                }
            }
        }
    }
    for (name, a, b) in pairs {
        let trees: Vec<ENode> = match (build_operator_tree::<DefaultNumericTypes>(a), build_operator_tree::<DefaultNumericTypes>(b)) {
            (Ok(x), Ok(y)) => vec![x, y],
            _ => continue,
        };
        let mut ctx = HCtx::new();
        ctx.set_value("x".into(), Value::Int(100)).unwrap();
        ctx.set_value("s".into(), Value::String("abcdefghijklmnop".into())).unwrap();
        let want: Vec<String> = trees.iter().map(|t| format!("{:?}", t.eval_with_context(&ctx))).collect();
        let shared = Arc::new((trees, ctx, want));
        let barrier = Arc::new(std::sync::Barrier::new(8));
        let handles: Vec<_> = (0..8usize)
            .map(|tid| {
                let shared = shared.clone();
                let barrier = barrier.clone();
                std::thread::spawn(move || -> Option<String> {
                    barrier.wait();
                    for round in 0..20000usize {
                        let k = (tid + round) % 2;
                        let got = format!("{:?}", shared.0[k].eval_with_context(&shared.1));
                        if got != shared.2[k] {
                            return Some(format!("thread {} round {}: {} where the sequential run gives {}", tid, round, got, shared.2[k]));
                        }
                    }
                    None
                })
            })
            .collect();
        stats.count("free-running/workloads");
        stats.evaluations += 8 * 20000;
        for h in handles {
            if let Ok(Some(diff)) = h.join() {
                stats.violation(Violation {
                    property: ID,
                    kind: "free-running-result-differs-from-sequential".into(),
                    input: json!({"engine": "free-running threads (sampling)", "workload": name, "sources": [a, b]}),
                    expected: "every thread observes the sequential results".into(),
                    actual: diff,
                    test: String::new(),
                });
                break;
            }
        }
    }
}

pub fn run(cfg: &Cfg) -> Report {
    let mut stats = Stats::new();
    if std::env::var("EVX_C15_FREE_RUNNING").ok().as_deref() == Some("1") {
        free_running_pass(&mut stats);
    }
    // the trusted base of (b): no unsafe code in the crate
    let lib = std::fs::read_to_string("/repo/src/lib.rs").unwrap_or_default();
    let forbid_unsafe = lib.contains("#![forbid(unsafe_code)]");
    let probe = sendsync_probe(&mut stats);
    let ws = workloads();
    let mut per = Vec::new();
    for w in &ws {
        // a workload whose sources do not precompile on this tree is skipped (counted; guarded below)
        let usable = {
            let make = w.make.clone();
            std::panic::catch_unwind(std::panic::AssertUnwindSafe(|| {
                make();
            }))
            .is_ok()
        };
        if !usable {
            stats.count("workloads-skipped-source-does-not-precompile");
            continue;
        }
        // iterate the bound: 0, 1, 2, ... so that the first counterexample has the fewest preemptions
        let bounds: Vec<Option<usize>> = if w.threads > 3 {
            vec![Some(0), Some(1)]
        } else { match cfg.tier {
            Tier::Quick => vec![Some(0), Some(1), Some(2)],
            Tier::Thorough => {
                if w.threads == 2 {
                    vec![Some(0), Some(1), Some(2), Some(3), None]
                } else {
                    vec![Some(0), Some(1), Some(2), Some(3)]
                }
            },
        } };
        let mut last = json!(null);
        for b in bounds {
            let had = stats.violations_total;
            last = explore_workload(w, b, cfg.tier.pick(4_000, 400_000), &mut stats);
            per.push(last.clone());
            if stats.violations_total > had {
                break;
            }
        }
        stats.states += last["max_scheduling_points"].as_u64().unwrap_or(0);
        stats.sample(last);
    }
    stats.add("nontrivial-distinct", stats.get("distinct-interleavings-total"));
    let guards = vec![
        ("schedules produced different global interleavings of the calls".to_string(), stats.get("distinct-interleavings-total") > ws.len() as u64),
        ("at least half of the workloads were usable".to_string(), 2 * stats.get("workloads-skipped-source-does-not-precompile") <= ws.len() as u64),
        ("#![forbid(unsafe_code)] is present in src/lib.rs (trusted base: no data races proper)".to_string(), forbid_unsafe),
    ];
    Report {
        property: ID,
        level: "model_checking",
        rule: format!("(a) compile probe: {}. (b) stateless exploration of thread interleavings on real OS threads under a baton scheduler (one thread runs between scheduling points; scheduling points at thread start/end and inside the harness-owned user functions y/z called during evaluation); depth-first over choice prefixes with preemption bounds 0,1,2 (quick) / 0..3 and unbounded for the 2-thread workloads (thorough); {} workloads (same tree + same context; different trees; string-level evaluation; shared tree with per-thread mutable clones; clone/format/iterate while evaluating); oracle: every thread's result and own ordered call log equal its sequential run. (c) loom pass (merged below as a secondary profile): loom 0.7 explores, with preemption bound 2 (quick) / 2, 3 and unbounded (thorough), 10 workloads of 2-3 threads sharing one Node and one HashMapContext against a copy of /repo's sources in which std::sync atomics, locks, thread-locals and statics are mechanically rewritten to loom's (tools/loomify.py), so that every synchronisation operation inside the library is a scheduling point too; same oracle, plus: after the threads are joined the shared objects still give the sequential answers. Transitions = complete executions (schedules); non-trivial/distinct = distinct global interleavings of the user-function calls that the schedules produced", probe, ws.len()),
        nontrivial_set: "counter:nontrivial-distinct",
        exhaustive: true,
        bound_completed: match cfg.tier { Tier::Quick => "preemption bound 2".into(), Tier::Thorough => "unbounded for 2 threads, preemption bound 3 for 3 threads".to_string() },
        assumptions: vec![
            "baton scheduler: races whose window contains no harness-owned scheduling point are not explored by it; the loom pass adds every library-internal atomic / lock / thread-local operation as a scheduling point (for the primitives loom models; Once, OnceLock, LazyLock and Arc reference counts are left on std and stay invisible); weak-memory effects only as far as loom models them; data races proper are excluded by #![forbid(unsafe_code)] (asserted)".into(),
            "loom pass: if the rewritten copy does not build (an API loom lacks) the pass reports itself not applicable to the tree and the baton exploration alone decides; a run that hits its time cap or that loom aborts for a reason other than the harness's own comparison is counted as capped / inconclusive, never as a verdict; only then, and only if the tree contains synchronisation primitives, a free-running pass of 8 real threads is added, which is sampling and can only contribute a genuine counterexample".into(),
            "schedule 0 of every workload is run twice and must give identical observations; a divergence while replaying a prefix is a machinery error".into(),
            "a thread that blocks on a foreign lock held across a scheduling point is marked blocked by a watchdog and the baton passes on (counted as degraded determinism; the oracle stays sound)".into(),
            "the Send + Sync half is decided by the type checker, as the property says".into(),
        ],
        stats,
        guards,
        extra: json!({"workloads": per, "sendsync_probe": probe}),
    }
}

pub fn replay(case: &J) -> i32 {
    let input = &case["input"];
    let mut st = Stats::new();
    if input["probe"].is_string() {
        println!("{}", sendsync_probe(&mut st));
        return super::replay_verdict(ID, &st);
    }
    if input["engine"].as_str().map(|e| e.starts_with("free-running")).unwrap_or(false) {
        // sampling: repeat the pass a few times; a run without a counterexample proves nothing either way
        for _ in 0..5 {
            free_running_pass(&mut st);
            if !st.violations.is_empty() {
                break;
            }
        }
        return super::replay_verdict(ID, &st);
    }
    let name = input["workload"].as_str().unwrap_or("");
    let ws = workloads();
    let w = ws.iter().find(|w| w.name == name).unwrap_or_else(|| machinery_error("C15 replay: unknown workload"));
    let prefix: Vec<usize> = input["schedule"].as_array().map(|a| a.iter().map(|x| x.as_u64().unwrap_or(0) as usize).collect()).unwrap_or_default();
    let seq: Vec<Obs> = {
        let body = (w.make)();
        (0..w.threads).map(|t| body(t)).collect()
    };
    let body = (w.make)();
    let run_body: Arc<dyn Fn(usize, &Arc<sched::Sched>) -> Obs + Send + Sync> = Arc::new(move |tid, _s| {
        take_calls();
        body(tid)
    });
    let x = sched::run_once(w.threads, &prefix, run_body);
    st.evaluations = 1;
    println!("schedule {:?}: baton order {:?}\n results {:?}\n sequential {:?}", x.choices, x.order, x.results, seq);
    if x.results != seq {
        st.violation(Violation {
            property: ID,
            kind: "concurrent-result-differs-from-sequential".into(),
            input: input.clone(),
            expected: format!("{:?}", seq),
            actual: format!("{:?}", x.results),
            test: String::new(),
        });
    }
    super::replay_verdict(ID, &st)
}
