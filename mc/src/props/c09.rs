//! C09 — function resolution: call forms, shadowing and the builtin switch.
//! Complete configuration matrix plus all switch/clone/clear/define histories up to a depth.

use super::common::*;
use crate::engine::*;
use crate::refmodel::ast::Ast;
use crate::refmodel::builtins::BUILTIN_NAMES;
use crate::refmodel::interp::*;
use crate::refmodel::value::RV;
use evalexpr::{
    build_operator_tree, Context, ContextWithMutableFunctions, ContextWithMutableVariables, DefaultNumericTypes, EmptyContext,
    EmptyContextWithBuiltinFunctions, EvalexprError, Function, Value,
};
use serde_json::{json, Value as J};
use std::sync::{Arc, Mutex};

const ID: &str = "C09";

pub fn names() -> Vec<String> {
    let mut v: Vec<String> = BUILTIN_NAMES.iter().map(|s| s.to_string()).collect();
    v.extend(["foo", "math::foo", "str::nothing"].iter().map(|s| s.to_string()));
    // names that differ from a builtin only in letter case, in a missing or doubled namespace, or in an
    // added character: none of them is a builtin
    // builtins that exist only with optional features: without them these are ordinary unknown names
    v.extend(["random", "str::regex_matches", "str::regex_replace"].iter().map(|s| s.to_string()));
    v.extend(["MAX", "Len", "TypeOf", "math::Sqrt", "STR::from", "Math::abs", "sqrt", "from", "math::max", "str::len", "max_", "_len", "math::", "::len"].iter().map(|s| s.to_string()));
    // names of unusual lexical classes (round 11): digits and underscores only, a leading digit, non-ASCII
    // symbols, primes and combining marks, non-ASCII letters, invisible characters that are not white space,
    // ASCII punctuation that is no operator — every one of them is an ordinary identifier
    v.extend(
        ["_1", "_0", "1_", "__7", "_", "\u{221a}", "\u{2211}", "f\u{2032}", "cafe\u{301}", "x\u{2032}y", "\u{3bb}", "gr\u{f6}\u{df}e", "a\u{200b}b", "\u{feff}f", "a.b", "a#b", "f$", "@f", "\u{540d}\u{524d}", "f?", "a'b", "0x", "1e", "0xg"]
            .iter()
            .map(|s| s.to_string()),
    );
    v
}

/// Call forms: (label, source, reference AST) for function name n.
fn call_forms(n: &str) -> Vec<(&'static str, String, Ast)> {
    let lit = |v: RV| Ast::Lit(v);
    let call = |f: &str, a: Ast| Ast::Call(f.to_string(), Box::new(a));
    let one = || lit(RV::Int(1));
    let s = || lit(RV::Str("ab".into()));
    vec![
        ("n(x) int", format!("{}(1)", n), call(n, one())),
        ("n x int", format!("{} 1", n), call(n, one())),
        ("n(x) string", format!("{}(\"ab\")", n), call(n, s())),
        ("n x string", format!("{} \"ab\"", n), call(n, s())),
        ("n\"ab\" (no gap)", format!("{}\"ab\"", n), call(n, s())),
        ("n x string,tail", format!("{} \"ab\" + \"c\"", n), Ast::Bin(crate::refmodel::ops::BinOp::Add, Box::new(call(n, s())), Box::new(lit(RV::Str("c".into()))))),
        ("n x ^ y", format!("{} 2 ^ 3", n), Ast::Bin(crate::refmodel::ops::BinOp::Exp, Box::new(call(n, lit(RV::Int(2)))), Box::new(lit(RV::Int(3))))),
        ("n(x) ^ y", format!("{}(2) ^ 3", n), Ast::Bin(crate::refmodel::ops::BinOp::Exp, Box::new(call(n, lit(RV::Int(2)))), Box::new(lit(RV::Int(3))))),
        ("n<TAB>x", format!("{}\t1", n), call(n, one())),
        ("n<LF>x", format!("{}\n1", n), call(n, one())),
        ("n<VT>x", format!("{}\u{b}1", n), call(n, one())),
        ("n<FF>(x)", format!("{}\u{c}(1)", n), call(n, one())),
        ("n<CR>x", format!("{}\r\"ab\"", n), call(n, s())),
        ("n<NBSP>x", format!("{}\u{a0}1", n), call(n, one())),
        ("n<NEL>x", format!("{}\u{85}1", n), call(n, one())),
        ("n<IDEOGRAPHIC SPACE>x", format!("{}\u{3000}1", n), call(n, one())),
        ("n/**/x", format!("{}/**/1", n), call(n, one())),
        ("1>n(7)", format!("1>{}(7)", n), Ast::Bin(crate::refmodel::ops::BinOp::Gt, Box::new(one()), Box::new(call(n, lit(RV::Int(7)))))),
        ("1<n 7", format!("1<{} 7", n), Ast::Bin(crate::refmodel::ops::BinOp::Lt, Box::new(one()), Box::new(call(n, lit(RV::Int(7)))))),
        ("2*n(7)", format!("2*{}(7)", n), Ast::Bin(crate::refmodel::ops::BinOp::Mul, Box::new(lit(RV::Int(2))), Box::new(call(n, lit(RV::Int(7)))))),
        ("2%n(7)", format!("2%{}(7)", n), Ast::Bin(crate::refmodel::ops::BinOp::Mod, Box::new(lit(RV::Int(2))), Box::new(call(n, lit(RV::Int(7)))))),
        ("true&&n(7)", format!("true&&{}(true)", n), Ast::Bin(crate::refmodel::ops::BinOp::And, Box::new(lit(RV::Bool(true))), Box::new(call(n, lit(RV::Bool(true)))))),
        ("1==n(7)", format!("1=={}(7)", n), Ast::Bin(crate::refmodel::ops::BinOp::Eq, Box::new(one()), Box::new(call(n, lit(RV::Int(7)))))),
        ("x=n(7)", format!("(1,{}(7))", n), Ast::Tuple(vec![one(), call(n, lit(RV::Int(7)))])),
        ("-n x", format!("-{} 1", n), Ast::Pre(crate::refmodel::ops::UnOp::Neg, Box::new(call(n, one())))),
        ("n x boolean", format!("{} true", n), call(n, lit(RV::Bool(true)))),
        ("n x float", format!("{} 2.5", n), call(n, lit(RV::Float(2.5)))),
        ("n x variable", format!("{} {}", n, n), call(n, Ast::Var(n.to_string()))),
        ("n()", format!("{}()", n), call(n, Ast::Unit)),
        ("n(x, y) ints", format!("{}(1, 2)", n), call(n, Ast::Tuple(vec![one(), lit(RV::Int(2))]))),
        ("n(x, y) string,int", format!("{}(\"ab\", 1)", n), call(n, Ast::Tuple(vec![s(), one()]))),
        ("n(x, y, z)", format!("{}(true, 1, 2)", n), call(n, Ast::Tuple(vec![lit(RV::Bool(true)), one(), lit(RV::Int(2))]))),
        ("m n x", format!("typeof {} 1", n), call("typeof", call(n, one()))),
        ("n m x", format!("{} typeof 1", n), call(n, call("typeof", one()))),
        ("bare n", n.to_string(), Ast::Var(n.to_string())),
        ("n + 1 (variable)", format!("{} + 1", n), Ast::Bin(crate::refmodel::ops::BinOp::Add, Box::new(Ast::Var(n.to_string())), Box::new(one()))),
    ]
}

#[derive(Clone, Debug, PartialEq, Eq, Hash)]
enum Op {
    Disable,
    Enable,
    CloneIt,
    ClearFunctions,
    ClearVariables,
    /// the combined `clear()`: forgets variables and functions, keeps the switch
    Clear,
    SetFunction,
    SetVariable,
    /// define a user function named n that records its argument and then fails
    SetFailingFunction,
    /// continue with a context that was overwritten by `clone_from` (its previous switch was the opposite)
    CloneFrom,
}

const OPS: [Op; 10] = [
    Op::Disable,
    Op::Enable,
    Op::CloneIt,
    Op::ClearFunctions,
    Op::ClearVariables,
    Op::Clear,
    Op::SetFunction,
    Op::SetVariable,
    Op::SetFailingFunction,
    Op::CloneFrom,
];

type Log = Arc<Mutex<Vec<RV>>>;

fn apply(real: &mut HCtx, model: &mut RCtx, op: &Op, n: &str, log: &Log) {
    match op {
        Op::Disable => {
            real.set_builtin_functions_disabled(true).unwrap();
            model.builtins_enabled = false;
        },
        Op::Enable => {
            real.set_builtin_functions_disabled(false).unwrap();
            model.builtins_enabled = true;
        },
        Op::CloneIt => {
            let c = real.clone();
            *real = c;
        },
        Op::ClearFunctions => {
            real.clear_functions();
            model.funcs.clear();
        },
        Op::ClearVariables => {
            real.clear_variables();
            model.vars.clear();
        },
        Op::Clear => {
            real.clear();
            model.vars.clear();
            model.funcs.clear();
        },
        Op::SetFunction => {
            let l = log.clone();
            real.set_function(
                n.to_string(),
                Function::new(move |a| {
                    l.lock().unwrap().push(RV::from_ev(a));
                    Ok(Value::Tuple(vec![Value::String("user".into()), a.clone()]))
                }),
            )
            .unwrap();
            model.funcs.insert(n.to_string(), RFn::Tagged("user".into()));
        },
        Op::SetVariable => {
            real.set_value(n.to_string(), Value::Int(5)).unwrap();
            model.vars.insert(n.to_string(), RV::Int(5));
        },
        Op::SetFailingFunction => {
            let l = log.clone();
            real.set_function(
                n.to_string(),
                Function::new(move |a| {
                    l.lock().unwrap().push(RV::from_ev(a));
                    Err(EvalexprError::CustomMessage("user function fails".into()))
                }),
            )
            .unwrap();
            model.funcs.insert(n.to_string(), RFn::Fail("user function fails".into()));
        },
        Op::CloneFrom => {
            // a target that already has content and the opposite switch
            let mut target = HCtx::new();
            target.set_builtin_functions_disabled(!real.are_builtin_functions_disabled()).unwrap();
            target.set_value("stale".into(), Value::Int(1)).unwrap();
            // ... and its own user function and variable under the name n and under `typeof` (round 12: a
            // clone_from that merges the function maps lets them survive)
            target.set_function(n.to_string(), Function::new(|_| Ok(Value::String("stale function of the overwritten context".into())))).unwrap();
            target.set_function("typeof".to_string(), Function::new(|_| Ok(Value::String("stale typeof of the overwritten context".into())))).unwrap();
            target.set_value(n.to_string(), Value::String("stale variable of the overwritten context".into())).unwrap();
            target.clone_from(real);
            *real = target;
        },
    }
}

fn viol(kind: &str, n: &str, cfg: &str, src: &str, expected: String, actual: String) -> Violation {
    Violation {
        property: ID,
        kind: kind.into(),
        input: json!({"name": n, "configuration": cfg, "source": src}),
        expected,
        actual,
        test: test_wrap(
            "c09_replay",
            &format!("    // configuration: {}\n    // evaluate {:?}; reference: see `expected`\n", cfg, src),
        ),
    }
}

/// Evaluates every call form of `n` in the (real, model) pair.
fn check_forms<C: Context<NumericTypes = DefaultNumericTypes>>(real: &C, model: &RCtx, n: &str, cfg: &str, log: Option<&Log>, st: &mut Stats) {
    check_forms_via(real, model, n, cfg, log, st, None)
}

type MutEval<'a> = &'a dyn Fn(&evalexpr::Node<DefaultNumericTypes>) -> Result<evalexpr::Value<DefaultNumericTypes>, evalexpr::EvalexprError<DefaultNumericTypes>>;

/// `via_mut`: evaluates a tree through the mutable entry point on a clone of the same context; the call
/// forms contain no assignment, so the result and the recorded arguments must be those of the immutable one.
fn check_forms_via<C: Context<NumericTypes = DefaultNumericTypes>>(real: &C, model: &RCtx, n: &str, cfg: &str, log: Option<&Log>, st: &mut Stats, via_mut: Option<MutEval>) {
    for (label, src, ast) in call_forms(n) {
        let tree = match guarded(|| build_operator_tree::<DefaultNumericTypes>(&src)) {
            Ok(Ok(t)) => t,
            other => {
                st.violation(viol("call-form-does-not-precompile", n, cfg, &src, "precompiles".into(), format!("{:?}", other.map(|r| r.map(|t| t.to_string())))));
                continue;
            },
        };
        if let Some(l) = log {
            l.lock().unwrap().clear();
        }
        let mut m = model.clone();
        m.log.clear();
        let rref = m.eval(&ast, Mode::Immutable);
        let real_r = guarded(|| tree.eval_with_context(real));
        st.evaluations += 1;
        st.transitions += 1;
        let real_r = match real_r {
            Ok(r) => r,
            Err(p) => {
                st.violation(viol("panic", n, cfg, &src, describe(&rref), format!("panic at {}: {}", p.location, p.message)));
                continue;
            },
        };
        if m.unclaimed {
            st.count("unclaimed");
            continue;
        }
        let resolution = match (&rref, model.funcs.contains_key(n)) {
            (_, true) if label != "bare n" && label != "n + 1 (variable)" => "user-function",
            (Err(RErr::FnNotFound(_)), _) => "unknown-function",
            (Err(RErr::VarNotFound(_)), _) => "unknown-variable",
            _ => "builtin-or-variable",
        };
        st.count(&format!("resolution/{}", resolution));
        let logged: Vec<String> = log.map(|l| l.lock().unwrap().iter().map(|v| v.key()).collect()).unwrap_or_default();
        let want_log: Vec<String> = m.log.iter().filter(|(f, _)| f == n).map(|(_, v)| v.key()).collect();
        if let Some(ev) = via_mut {
            if let Some(l) = log {
                l.lock().unwrap().clear();
            }
            let mr = guarded(|| ev(&tree));
            st.evaluations += 1;
            st.transitions += 1;
            let logged_mut: Vec<String> = log.map(|l| l.lock().unwrap().iter().map(|v| v.key()).collect()).unwrap_or_default();
            let ok = match &mr {
                Ok(r) => result_matches(&rref, r) && (log.is_none() || logged_mut == want_log),
                Err(_) => false,
            };
            if !ok {
                st.violation(viol(
                    "resolution-or-argument-shape-through-eval_with_context_mut",
                    n,
                    cfg,
                    &src,
                    format!("{} with user-function arguments {:?}", describe(&rref), want_log),
                    match &mr {
                        Ok(r) => format!("{} with user-function arguments {:?}", res_dbg(r), logged_mut),
                        Err(p) => format!("panic at {}: {}", p.location, p.message),
                    },
                ));
            }
        }
        if !result_matches(&rref, &real_r) || (log.is_some() && logged != want_log) {
            st.violation(viol(
                "resolution-or-argument-shape",
                n,
                cfg,
                &src,
                format!("{} with user-function arguments {:?}", describe(&rref), want_log),
                format!("{} with user-function arguments {:?}", res_dbg(&real_r), logged),
            ));
        }
    }
}

fn cfg_name(h: &[Op]) -> String {
    format!("HashMapContext after {:?}", h)
}

pub fn run(cfg: &Cfg) -> Report {
    let depth = cfg.tier.pick(4, 5);
    let names = names();
    let mut stats = par_items(&names, |_, n| {
        let mut st = Stats::new();
        // all histories over the 7 operations up to `depth` (this contains the complete matrix
        // switch x user function x variable x {as built, clone, cleared})
        fn go(real: &HCtx, model: &RCtx, hist: &mut Vec<Op>, left: usize, n: &str, log: &Log, st: &mut Stats) {
            st.states += 1;
            st.distinct("configurations", &(n.to_string(), model.funcs.contains_key(n), model.vars.contains_key(n), model.builtins_enabled));
            if hist.len() >= 2 {
                st.count("nontrivial-distinct");
            }
            let via_mut = |t: &evalexpr::Node<DefaultNumericTypes>| {
                let mut c = real.clone();
                t.eval_with_context_mut(&mut c)
            };
            check_forms_via(real, model, n, &cfg_name(hist), Some(log), st, Some(&via_mut));
            // the switch reads back, and a clone preserves it
            if real.are_builtin_functions_disabled() == model.builtins_enabled || real.clone().are_builtin_functions_disabled() == model.builtins_enabled {
                st.violation(viol("switch-state", n, &cfg_name(hist), "", format!("builtins enabled = {}", model.builtins_enabled), format!("are_builtin_functions_disabled() = {}", real.are_builtin_functions_disabled())));
            }
            if left == 0 {
                return;
            }
            for op in OPS.iter() {
                let mut r2 = real.clone();
                let mut m2 = model.clone();
                apply(&mut r2, &mut m2, op, n, log);
                hist.push(op.clone());
                go(&r2, &m2, hist, left - 1, n, log, st);
                hist.pop();
            }
        }
        let log: Log = Arc::new(Mutex::new(Vec::new()));
        go(&HCtx::new(), &RCtx::new(), &mut vec![], depth, n, &log, &mut st);
        // the two contexts without storage
        let e1 = EmptyContext::<DefaultNumericTypes>::default();
        let mut m1 = RCtx::new();
        m1.builtins_enabled = false;
        check_forms(&e1, &m1, n, "EmptyContext", None, &mut st);
        let e2 = EmptyContextWithBuiltinFunctions::<DefaultNumericTypes>::default();
        check_forms(&e2, &RCtx::new(), n, "EmptyContextWithBuiltinFunctions", None, &mut st);
        st.states += 2;
        st
    });
    // the switch on the two fixed-policy contexts
    let mut e1 = EmptyContext::<DefaultNumericTypes>::default();
    let mut e2 = EmptyContextWithBuiltinFunctions::<DefaultNumericTypes>::default();
    let checks: Vec<(&str, bool, Result<(), EErr>)> = vec![
        ("EmptyContext.set_builtin_functions_disabled(true)", true, e1.set_builtin_functions_disabled(true)),
        ("EmptyContext.set_builtin_functions_disabled(false)", false, e1.set_builtin_functions_disabled(false)),
        ("EmptyContextWithBuiltinFunctions.set_builtin_functions_disabled(true)", false, e2.set_builtin_functions_disabled(true)),
        ("EmptyContextWithBuiltinFunctions.set_builtin_functions_disabled(false)", true, e2.set_builtin_functions_disabled(false)),
    ];
    for (what, want_ok, got) in checks {
        stats.evaluations += 1;
        let ok = match (&got, want_ok) {
            (Ok(()), true) => true,
            (Err(EvalexprError::BuiltinFunctionsCannotBeEnabled), false) => what.starts_with("EmptyContext."),
            (Err(EvalexprError::BuiltinFunctionsCannotBeDisabled), false) => what.starts_with("EmptyContextWith"),
            _ => false,
        };
        if !ok || !e1.are_builtin_functions_disabled() || e2.are_builtin_functions_disabled() {
            stats.violation(viol("fixed-policy-switch", "", what, "", if want_ok { "Ok(())".into() } else { "the documented cannot-be-enabled/disabled error".into() }, format!("{:?}", got)));
        }
    }
    stats.transitions = stats.evaluations;
    for (n, hist) in [("max", vec![Op::SetFunction, Op::Disable]), ("len", vec![Op::Disable, Op::CloneIt]), ("foo", vec![Op::SetVariable])] {
        let log: Log = Arc::new(Mutex::new(Vec::new()));
        let (mut r, mut m) = (HCtx::new(), RCtx::new());
        for op in &hist {
            apply(&mut r, &mut m, op, n, &log);
        }
        let src = format!("{}(1, 2)", n);
        stats.sample(json!({"name": n, "history": format!("{:?}", hist), "source": src, "result": format!("{:?}", evalexpr::eval_with_context(&src, &r)), "bare": format!("{:?}", evalexpr::eval_with_context(n, &r))}));
    }
    let guards = vec![
        ("user functions, builtins, unknown functions and unknown variables were all resolved".to_string(),
            ["user-function", "unknown-function", "unknown-variable", "builtin-or-variable"].iter().all(|k| stats.get(&format!("resolution/{}", k)) > 0)),
        ("all 8 (switch, user function, variable) combinations were reached for every name".to_string(),
            stats.distinct_len("configurations") == 8 * names.len() as u64),
    ];
    Report {
        property: ID,
        level: "model_checking",
        rule: format!("for each of 93 names (49 builtins; foo, math::foo, str::nothing; 14 near-builtin names differing in letter case, namespace or one character; the 3 names that are builtins only with optional features; 24 names of unusual lexical classes: digits and underscores only, a leading digit, non-ASCII symbols, primes, combining marks and letters, invisible characters that are not white space, ASCII punctuation that is no operator): every history of length <= {depth} over {{disable builtins, enable, clone-and-continue, clone_from into a used context (opposite switch, its own function and variable named n, its own `typeof`), clear_functions, clear_variables, clear, define user function n, define failing user function n, bind variable n}} from an empty HashMapContext (contains the complete switch x user-function x variable x {{as built, clone, cleared}} matrix), plus EmptyContext and EmptyContextWithBuiltinFunctions; in every configuration reached, 36 call forms, each evaluated through `Node::eval_with_context` and (HashMapContext) through `Node::eval_with_context_mut` on a clone (`n(x)`, `n x` with int and string (also without a gap before the quote, followed by an operator, and under a prefix minus), `n()`, `n(x, y)`, `n(x, y, z)`, `typeof n x`, `n typeof x`, bare `n`, `n + 1`); oracle: reference resolution (user function first with the documented argument shape, recorded; else builtin table of C10 if enabled; else unknown function) . States = configurations, transitions = evaluations. Non-trivial = configurations reached by >= 2 operations"),
        nontrivial_set: "counter:nontrivial-distinct",
        exhaustive: true,
        bound_completed: format!("histories of length {depth}"),
        assumptions: vec!["builtin results are those of the C10 reference table; cases it does not claim are skipped".into()],
        stats,
        guards,
        extra: json!({}),
    }
}

pub fn replay(case: &J) -> i32 {
    // configurations are cheap: re-run the name's whole exploration at depth 3
    let n = case["input"]["name"].as_str().unwrap_or("").to_string();
    let rep = run(&Cfg {
        tier: Tier::Quick,
        seed: 0,
        overflow_checks: true,
        part_out: None,
        merge_parts: vec![],
        start: std::time::Instant::now(),
    });
    let mut st = Stats::new();
    st.evaluations = rep.stats.evaluations;
    for v in rep.stats.violations {
        if v.input["name"].as_str() == Some(&n) {
            st.violation(v);
        }
    }
    super::replay_verdict(ID, &st)
}
