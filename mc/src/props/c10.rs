//! C10 — builtin functions compute what the documentation says.
//! Complete matrix: 49 names × every argument shape of arity 0..3 over the value pool.

use super::common::*;
use crate::engine::*;
use crate::refmodel::builtins::*;
use crate::refmodel::value::*;
use evalexpr::{build_operator_tree, EvalexprError};
use serde_json::{json, Value as J};

const ID: &str = "C10";

/// All argument values of the matrix: Empty, v, (v, w) over the pool, (v, w, z) over the small pool
/// (thorough: a wider sub-pool), in a fixed order.
pub fn argument_values(tier: Tier) -> Vec<RV> {
    let base = pool();
    // thorough: the 330-value pool for arity 1 and 2, the complete 78-value pool for arity 3
    let pool = if tier == Tier::Thorough { big_pool() } else { base.clone() };
    let small = match tier {
        Tier::Quick => {
            // small pool plus every third value of the full pool
            let mut s = small_pool();
            for (i, v) in base.iter().enumerate() {
                if i % 3 == 0 && !s.iter().any(|x| x.bits_eq(v)) {
                    s.push(v.clone());
                }
            }
            s
        },
        // the complete edge pool^3
        Tier::Thorough => base.clone(),
    };
    let mut out = vec![RV::Empty];
    out.extend(pool.iter().cloned());
    // every pool value as a one-element tuple (cannot be written as a literal, but a variable or a user
    // function can hold it), and some four-element tuples
    for a in &pool {
        out.push(RV::Tuple(vec![a.clone()]));
    }
    for a in &small {
        out.push(RV::Tuple(vec![a.clone(), a.clone(), a.clone(), a.clone()]));
        out.push(RV::Tuple(vec![a.clone(), RV::Int(1), RV::Int(2), RV::Str("a".into())]));
    }
    for a in &pool {
        for b in &pool {
            out.push(RV::Tuple(vec![a.clone(), b.clone()]));
        }
    }
    for a in &small {
        for b in &small {
            for c in &small {
                out.push(RV::Tuple(vec![a.clone(), b.clone(), c.clone()]));
            }
        }
    }
    out
}

pub fn call_source(name: &str) -> String {
    format!("{}(x)", name)
}

fn infer_unit() -> Result<Unit, String> {
    let c = ctx_with(&[("x", &RV::Str("äb".into()))]);
    match evalexpr::eval_with_context("len(x)", &c) {
        Ok(evalexpr::Value::Int(3)) => Ok(Unit::Bytes),
        Ok(evalexpr::Value::Int(2)) => Ok(Unit::Chars),
        other => Err(format!("{:?}", other)),
    }
}

fn check_case(name: &str, tree: &ENode, arg: &RV, unit: Unit, st: &mut Stats) {
    let exp = reference(name, arg, unit);
    let c = ctx_with(&[("x", arg)]);
    let result = guarded(|| tree.eval_with_context(&c));
    st.evaluations += 1;
    let case = || json!({"name": name, "argument": arg.to_json()});
    let test = || {
        test_wrap(
            "c10_replay",
            &format!(
                "{}    let r = eval_with_context({:?}, &c);\n    // reference: {}\n    panic!(\"got {{:?}}\", r);\n",
                ctx_src(&[("x", arg)]),
                call_source(name),
                exp.describe()
            ),
        )
    };
    let result = match result {
        Ok(r) => r,
        Err(_) if matches!(exp, BExpect::Unclaimed) => {
            // neither a value nor an error, but on an input this property does not claim: C01 reports it
            st.count("unclaimed-panic");
            return;
        },
        Err(p) => {
            st.violation(Violation {
                property: ID,
                kind: "panic".into(),
                input: case(),
                expected: exp.describe(),
                actual: format!("panic at {}: {}", p.location, p.message),
                test: test(),
            });
            return;
        },
    };
    if let Err(EvalexprError::FunctionIdentifierNotFound(_)) = &result {
        st.violation(Violation {
            property: ID,
            kind: "builtin-missing".into(),
            input: case(),
            expected: exp.describe(),
            actual: res_dbg(&result),
            test: test(),
        });
        return;
    }
    match accepts(&exp, &result) {
        None => st.count("unclaimed"),
        Some(ok) => {
            match &exp {
                BExpect::Error => st.count("reference-error"),
                _ => {
                    st.count("reference-value");
                    // every (name, argument) pair is enumerated exactly once
                    st.count("nontrivial-distinct");
                },
            }
            match &result {
                Ok(v) => st.distinct("outcomes", &(name, RV::from_ev(v).key())),
                Err(e) => st.distinct("outcomes", &(name, format!("{:?}", e).split(|c: char| !c.is_alphanumeric()).next().unwrap_or("").to_string())),
            }
            if !ok {
                st.violation(Violation {
                    property: ID,
                    kind: "wrong-result".into(),
                    input: case(),
                    expected: exp.describe(),
                    actual: res_dbg(&result),
                    test: test(),
                });
            }
        },
    }
}

pub fn run(cfg: &Cfg) -> Report {
    let unit = match infer_unit() {
        Ok(u) => u,
        Err(got) => {
            // len of a string is neither its byte nor its character count: report as violation of C10
            let mut st = Stats::new();
            st.evaluations = 1;
            st.violation(Violation {
                property: ID,
                kind: "len-unit".into(),
                input: json!({"name": "len", "argument": RV::Str("äb".into()).to_json()}),
                expected: "Int(3) (bytes) or Int(2) (characters)".into(),
                actual: got,
                test: test_wrap("c10_replay", "    panic!(\"{:?}\", eval(\"len(\\\"äb\\\")\"));\n"),
            });
            return report(cfg, st, 0, Unit::Bytes);
        },
    };
    let args = argument_values(cfg.tier);
    let nargs = args.len();
    let trees: Vec<(&str, ENode)> = BUILTIN_NAMES
        .iter()
        .map(|n| {
            (
                *n,
                build_operator_tree::<evalexpr::DefaultNumericTypes>(&call_source(n))
                    .unwrap_or_else(|e| machinery_error(&format!("C10 source does not precompile: {e}"))),
            )
        })
        .collect();
    let mut stats = par_chunks(nargs as u64, 512, |r| {
        let mut st = Stats::new();
        for i in r {
            let arg = &args[i as usize];
            for (name, tree) in &trees {
                check_case(name, tree, arg, unit, &mut st);
            }
        }
        st
    });
    // consistency of len and str::substring on non-ASCII subjects, every index pair
    for s in ["äb", "日本", "a😀b", "ßß"] {
        let n = unit_len(s, unit) as i64;
        let t_sub = &trees.iter().find(|t| t.0 == "str::substring").unwrap().1;
        let t_len = &trees.iter().find(|t| t.0 == "len").unwrap().1;
        for i in -1..=n + 1 {
            for j in -1..=n + 1 {
                let arg = RV::Tuple(vec![RV::Str(s.into()), RV::Int(i), RV::Int(j)]);
                check_case("str::substring", t_sub, &arg, unit, &mut stats);
                // len(substring(s, i, j)) == j - i whenever the substring exists
                let c = ctx_with(&[("x", &arg)]);
                if let Ok(Ok(sub)) = guarded(|| t_sub.eval_with_context(&c)) {
                    let c2 = ctx_with(&[("x", &RV::from_ev(&sub))]);
                    let l = guarded(|| t_len.eval_with_context(&c2));
                    stats.evaluations += 1;
                    stats.count("len-substring-consistency");
                    if !matches!(&l, Ok(Ok(evalexpr::Value::Int(k))) if *k == j - i) {
                        stats.violation(Violation {
                            property: ID,
                            kind: "len-substring-inconsistent".into(),
                            input: json!({"name": "str::substring", "argument": arg.to_json()}),
                            expected: format!("len(str::substring(s, {i}, {j})) == {}", j - i),
                            actual: format!("{:?}", l),
                            test: test_wrap("c10_replay", &format!("    panic!(\"{{:?}}\", eval(\"len(str::substring({:?}, {}, {}))\"));\n", s, i, j)),
                        });
                    }
                }
            }
            let arg2 = RV::Tuple(vec![RV::Str(s.into()), RV::Int(i)]);
            check_case("str::substring", t_sub, &arg2, unit, &mut stats);
        }
    }
    // character classes: every Unicode White_Space code point, look-alikes that are not whitespace, and
    // characters whose case mapping changes length or depends on position, at the start, the end, both
    // ends and the interior of a short string, through every string builtin
    {
        let tree = |n: &str| trees.iter().find(|t| t.0 == n).unwrap().1.clone();
        let fns: Vec<(&str, ENode)> = ["str::trim", "str::to_uppercase", "str::to_lowercase", "len", "str::from", "typeof"].iter().map(|n| (*n, tree(n))).collect();
        let t_sub = tree("str::substring");
        let mut chars: Vec<char> = (0..=0x3000u32).filter_map(char::from_u32).filter(|c| c.is_whitespace()).collect();
        chars.extend(['\u{200b}', '\u{feff}', '\u{180e}', '\u{1c}', '\u{7f}', 'İ', 'ı', 'ß', 'ǅ', 'ſ', 'Σ', 'σ', 'ς', 'ŉ', '\u{301}', 'ﬁ', '𐐀', '😀']);
        for c in chars {
            for text in [format!("{c}"), format!("{c}a"), format!("a{c}"), format!("{c}a{c}"), format!("a{c}b"), format!("{c}{c}a b{c}"), format!("A{c}"), format!("{c} a \t")] {
                let sv = RV::Str(text.clone());
                for (n, t) in &fns {
                    check_case(n, t, &sv, unit, &mut stats);
                }
                let l = unit_len(&text, unit) as i64;
                for i in 0..=l {
                    check_case("str::substring", &t_sub, &RV::Tuple(vec![sv.clone(), RV::Int(i)]), unit, &mut stats);
                }
                stats.count("character-class-strings");
            }
        }
    }
    // scaling families: long tuples and long strings
    {
        let tree = |n: &str| trees.iter().find(|t| t.0 == n).unwrap().1.clone();
        let (t_min, t_max, t_len, t_contains, t_any, t_from, t_sub, t_up, t_low, t_trim, t_typeof) = (
            tree("min"), tree("max"), tree("len"), tree("contains"), tree("contains_any"), tree("str::from"),
            tree("str::substring"), tree("str::to_uppercase"), tree("str::to_lowercase"), tree("str::trim"), tree("typeof"),
        );
        for n in super::scale::sizes(cfg.tier == Tier::Thorough) {
            let positions: Vec<usize> = if n <= 40 { (0..n).collect() } else { vec![0, 1, 7, 8, 9, 15, 16, 17, n / 2, n - 2, n - 1] };
            for &k in &positions {
                for extreme in [RV::Int(-5), RV::Float(-5.5), RV::Int(1 << 40), RV::Float(1e15)] {
                    let mut t: Vec<RV> = (0..n).map(|i| if i % 3 == 1 { RV::Float(10.5 + i as f64) } else { RV::Int(10 + i as i64) }).collect();
                    t[k] = extreme.clone();
                    let arg = if n == 1 { t[0].clone() } else { RV::Tuple(t) };
                    check_case("min", &t_min, &arg, unit, &mut stats);
                    check_case("max", &t_max, &arg, unit, &mut stats);
                }
                let hay: Vec<RV> = (0..n).map(|i| if i % 2 == 0 { RV::Int(i as i64) } else { RV::Str(format!("s{}", i)) }).collect();
                let needle = hay[k].clone();
                check_case("contains", &t_contains, &RV::Tuple(vec![RV::Tuple(hay.clone()), needle.clone()]), unit, &mut stats);
                check_case("contains", &t_contains, &RV::Tuple(vec![RV::Tuple(hay.clone()), RV::Int(-1)]), unit, &mut stats);
                check_case("contains_any", &t_any, &RV::Tuple(vec![RV::Tuple(hay.clone()), RV::Tuple(vec![RV::Int(-1), RV::Str("zz".into()), needle])]), unit, &mut stats);
                check_case("contains_any", &t_any, &RV::Tuple(vec![RV::Tuple(vec![RV::Int(-1)]), RV::Tuple(hay.clone())]), unit, &mut stats);
                stats.count("scaling-family-cases");
            }
            for &k in &positions {
                let mut chars: Vec<char> = (0..n).map(|i| char::from(b'a' + (i % 26) as u8)).collect();
                chars[k] = if k % 2 == 0 { 'é' } else { 'Ä' };
                let sv = RV::Str(chars.into_iter().collect());
                check_case("str::to_uppercase", &t_up, &sv, unit, &mut stats);
                check_case("str::to_lowercase", &t_low, &sv, unit, &mut stats);
                check_case("len", &t_len, &sv, unit, &mut stats);
            }
            let tup = RV::Tuple((0..n).map(|i| RV::Int(i as i64)).collect());
            check_case("len", &t_len, &tup, unit, &mut stats);
            check_case("str::from", &t_from, &tup, unit, &mut stats);
            check_case("typeof", &t_typeof, &tup, unit, &mut stats);
            for text in [
                "a".repeat(n),
                "äß".repeat(n),
                (0..n).map(|i| char::from(b'a' + (i % 26) as u8)).collect::<String>(),
                format!("{}x{}", " ".repeat(n), "\t".repeat(n)),
            ] {
                let sv = RV::Str(text.clone());
                check_case("len", &t_len, &sv, unit, &mut stats);
                check_case("str::to_uppercase", &t_up, &sv, unit, &mut stats);
                check_case("str::to_lowercase", &t_low, &sv, unit, &mut stats);
                check_case("str::trim", &t_trim, &sv, unit, &mut stats);
                check_case("str::from", &t_from, &sv, unit, &mut stats);
                let l = unit_len(&text, unit) as i64;
                for (i, j) in [(0, l), (0, 0), (l, l), (1, l - 1), (l / 2, l), (0, l + 1), (l / 3, l / 2), (1, 2)] {
                    check_case("str::substring", &t_sub, &RV::Tuple(vec![sv.clone(), RV::Int(i), RV::Int(j)]), unit, &mut stats);
                }
                check_case("str::substring", &t_sub, &RV::Tuple(vec![sv.clone(), RV::Int(l / 2)]), unit, &mut stats);
            }
        }
    }
    stats.sample(json!({"call": "min(x)", "x": RV::Tuple(vec![RV::Float(1e19), RV::Float(2e19)]).to_json(), "reference": reference("min", &RV::Tuple(vec![RV::Float(1e19), RV::Float(2e19)]), unit).describe()}));
    stats.sample(json!({"call": "math::log(x)", "x": RV::Tuple(vec![RV::Int(3), RV::Int(7)]).to_json(), "reference": reference("math::log", &RV::Tuple(vec![RV::Int(3), RV::Int(7)]), unit).describe()}));
    stats.sample(json!({"call": "str::substring(x)", "x": RV::Tuple(vec![RV::Str("äb".into()), RV::Int(1)]).to_json(), "reference": reference("str::substring", &RV::Tuple(vec![RV::Str("äb".into()), RV::Int(1)]), unit).describe()}));
    stats.sample(json!({"call": "shl(x)", "x": RV::Tuple(vec![RV::Int(1), RV::Int(64)]).to_json(), "reference": "unclaimed (shift amount outside 0..63); only C01 applies"}));
    stats.sample(json!({"call": "if(x)", "x": RV::Tuple(vec![RV::Bool(false), RV::Int(1), RV::Str("a".into())]).to_json(), "reference": reference("if", &RV::Tuple(vec![RV::Bool(false), RV::Int(1), RV::Str("a".into())]), unit).describe()}));
    report(cfg, stats, nargs, unit)
}

fn report(_cfg: &Cfg, stats: Stats, nargs: usize, unit: Unit) -> Report {
    let guards = vec![
        ("reference said `value` for some case".to_string(), stats.get("reference-value") > 0),
        ("reference said `error` for some case".to_string(), stats.get("reference-error") > 0),
        ("len/substring consistency pass ran".to_string(), stats.get("len-substring-consistency") > 0),
    ];
    Report {
        property: ID,
        level: "exploration",
        rule: format!("complete matrix: 49 builtin names x {nargs} argument values (Empty; each pool value; each pool value as a 1-tuple; every ordered pair of pool values as a 2-tuple; every ordered triple of a sub-pool as a 3-tuple; 4-tuples of the sub-pool), called as `f(x)` with x bound; plus every index pair (-1..=len+1)^2 of str::substring on four non-ASCII subjects with the len/substring consistency oracle; plus a character-class family (every Unicode White_Space code point, zero-width and control look-alikes, characters whose case mapping changes length or depends on position, at the start / end / both ends / interior of a short string) through str::trim, to_uppercase, to_lowercase, len, str::from, typeof and str::substring at every index; plus scaling families (min/max with the extreme at every position of n-tuples, contains/contains_any with the needle at every position, len/str::from/typeof of n-tuples, the str:: functions on strings of n characters, n in 1..20 and up to 129 / 1..40 and up to 400); a case is non-trivial when the reference yields a value (not an error, not unclaimed); each (name, argument) pair is enumerated once"),
        nontrivial_set: "counter:nontrivial-distinct",
        exhaustive: true,
        bound_completed: format!("{nargs} argument values x 49 names; indexing unit inferred from len: {:?}", unit),
        assumptions: vec![
            "reference table mc/src/refmodel/builtins.rs is the specification (README table)".into(),
            "math functions are compared with the same f64 std functions on converted arguments (same libm on both sides)".into(),
            "unclaimed, as the property says: shift amounts outside 0..63, min/max with NaN, contains/contains_any with an Empty needle, byte-vs-character unit of len (only len/substring consistency)".into(),
            "min/max accept any argument that is extreme under exact or converted int/float comparison; ties may have either type".into(),
        ],
        stats,
        guards,
        extra: json!({"indexing_unit": format!("{:?}", unit)}),
    }
}

pub fn replay(case: &J) -> i32 {
    let input = &case["input"];
    let name = input["name"].as_str().unwrap_or("");
    let arg = RV::from_json(&input["argument"]).unwrap_or_else(|| machinery_error("C10 replay: bad argument"));
    let name = BUILTIN_NAMES
        .iter()
        .find(|n| **n == name)
        .unwrap_or_else(|| machinery_error("C10 replay: unknown builtin"));
    let unit = infer_unit().unwrap_or(Unit::Bytes);
    let tree = build_operator_tree::<evalexpr::DefaultNumericTypes>(&call_source(name)).unwrap();
    let mut st = Stats::new();
    check_case(name, &tree, &arg, unit, &mut st);
    super::replay_verdict(ID, &st)
}
