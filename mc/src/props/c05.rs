//! C05 — `,` aggregates, `;` sequences: every separator skeleton × element filling.

use super::common::*;
use crate::engine::*;
use crate::refmodel::ast::*;
use crate::refmodel::interp::*;
use crate::refmodel::ops::BinOp;
use crate::refmodel::value::*;
use evalexpr::{build_operator_tree, ContextWithMutableFunctions, Function};
use serde_json::{json, Value as J};
use std::sync::{Arc, Mutex};

const ID: &str = "C05";

#[derive(Clone, Debug)]
enum Elem {
    Empty,
    /// `()` written out
    UnitParens,
    Lit(i64),
    Assign(&'static str, i64),
    Read(&'static str),
    AddAssign(&'static str, i64),
    /// `f(k)`: a call of the recording identity function
    Call(i64),
    Group(Seq),
}

#[derive(Clone, Debug)]
struct Seq {
    /// separators[i] stands between elems[i] and elems[i+1]; true = ';'
    seps: Vec<bool>,
    elems: Vec<Elem>,
}

impl Elem {
    fn src(&self) -> String {
        match self {
            Elem::Empty => String::new(),
            Elem::UnitParens => "()".into(),
            Elem::Lit(k) => k.to_string(),
            Elem::Assign(v, k) => format!("{} = {}", v, k),
            Elem::Read(v) => v.to_string(),
            Elem::AddAssign(v, k) => format!("{} += {}", v, k),
            Elem::Call(k) => format!("f({})", k),
            Elem::Group(s) => format!("({})", s.src()),
        }
    }
    fn ast(&self) -> Ast {
        match self {
            Elem::Empty | Elem::UnitParens => Ast::Unit,
            Elem::Lit(k) => Ast::Lit(RV::Int(*k)),
            Elem::Assign(v, k) => Ast::Asg(None, v.to_string(), Box::new(Ast::Lit(RV::Int(*k)))),
            Elem::Read(v) => Ast::Var(v.to_string()),
            Elem::AddAssign(v, k) => Ast::Asg(Some(BinOp::Add), v.to_string(), Box::new(Ast::Lit(RV::Int(*k)))),
            Elem::Call(k) => Ast::Call("f".into(), Box::new(Ast::Lit(RV::Int(*k)))),
            Elem::Group(s) => s.ast(),
        }
    }
}

impl Seq {
    fn src(&self) -> String {
        let mut s = String::new();
        for (i, e) in self.elems.iter().enumerate() {
            if i > 0 {
                s.push_str(if self.seps[i - 1] { ";" } else { "," });
                s.push(' ');
            }
            s.push_str(&e.src());
        }
        // trailing space after a final separator is harmless; trim for readability
        s.trim_end().to_string()
    }
    /// Reference tree: split at `;`, then at `,`; a single part is no sequence node.
    fn ast(&self) -> Ast {
        let mut chain: Vec<Ast> = Vec::new();
        let mut tuple: Vec<Ast> = Vec::new();
        let close = |tuple: &mut Vec<Ast>, chain: &mut Vec<Ast>| {
            let t = std::mem::take(tuple);
            chain.push(if t.len() == 1 { t.into_iter().next().unwrap() } else { Ast::Tuple(t) });
        };
        for (i, e) in self.elems.iter().enumerate() {
            tuple.push(e.ast());
            if i < self.seps.len() && self.seps[i] {
                close(&mut tuple, &mut chain);
            }
        }
        close(&mut tuple, &mut chain);
        if chain.len() == 1 {
            chain.into_iter().next().unwrap()
        } else {
            Ast::Chain(chain)
        }
    }
}

/// The simple element options at slot `i` for variable `v`.
fn simple_options(i: usize, v: &'static str, with_addassign: bool) -> Vec<Elem> {
    let k = i as i64 + 1;
    let mut o = vec![Elem::Empty, Elem::Lit(k), Elem::Assign(v, k), Elem::Read(v)];
    if with_addassign {
        o.push(Elem::AddAssign(v, k * 10));
    }
    o
}

/// All sequences with exactly `n` separators whose slot `i` ranges over `opts(i)`.
fn for_each_seq(n: usize, opts: &dyn Fn(usize) -> Vec<Elem>, f: &mut dyn FnMut(&Seq)) {
    let slot_opts: Vec<Vec<Elem>> = (0..=n).map(opts).collect();
    let mut idx = vec![0usize; n + 1];
    for mask in 0..(1u32 << n) {
        let seps: Vec<bool> = (0..n).map(|i| mask >> i & 1 == 1).collect();
        idx.iter_mut().for_each(|x| *x = 0);
        loop {
            let seq = Seq {
                seps: seps.clone(),
                elems: idx.iter().enumerate().map(|(s, &k)| slot_opts[s][k].clone()).collect(),
            };
            f(&seq);
            // odometer
            let mut p = 0;
            loop {
                if p > n {
                    break;
                }
                idx[p] += 1;
                if idx[p] < slot_opts[p].len() {
                    break;
                }
                idx[p] = 0;
                p += 1;
            }
            if p > n {
                break;
            }
        }
    }
}

fn groups(max_n: usize, nested: bool) -> Vec<Elem> {
    let mut out = Vec::new();
    for n in 0..=max_n {
        for_each_seq(n, &|i| simple_options(i + 5, "b", false), &mut |s| out.push(Elem::Group(s.clone())));
    }
    if nested {
        // one level deeper: a group whose first element is itself a group
        let inner: Vec<Elem> = {
            let mut v = Vec::new();
            for n in 0..=1 {
                for_each_seq(n, &|i| vec![Elem::Empty, Elem::Lit(i as i64 + 20), Elem::Assign("c", i as i64 + 20)], &mut |s| {
                    v.push(Elem::Group(s.clone()))
                });
            }
            v
        };
        for g in inner {
            for sep in [false, true] {
                for tail in [Elem::Empty, Elem::Lit(30), Elem::Read("c")] {
                    out.push(Elem::Group(Seq {
                        seps: vec![sep],
                        elems: vec![g.clone(), tail.clone()],
                    }));
                    out.push(Elem::Group(Seq {
                        seps: vec![sep],
                        elems: vec![tail.clone(), g.clone()],
                    }));
                }
            }
        }
    }
    out
}

fn check(seq: &Seq, as_call: bool, st: &mut Stats) {
    let mut src = seq.src();
    let mut ast = seq.ast();
    if as_call {
        src = format!("f({})", src);
        ast = Ast::Call("f".into(), Box::new(ast));
    }
    let want = ast_to_nt(&ast);
    st.evaluations += 1;
    let mixed = seq.seps.iter().any(|s| *s) && seq.seps.iter().any(|s| !*s);
    if mixed {
        // every source is enumerated exactly once
        st.count("nontrivial-distinct");
    }
    // reference run
    let mut rc = RCtx::new();
    rc.funcs.insert("f".into(), RFn::Identity);
    let rref = rc.eval(&ast, Mode::Mutable);
    let mk = |kind: &str, expected: String, actual: String| Violation {
        property: ID,
        kind: kind.into(),
        input: json!({"source": src, "reference_tree": want.show()}),
        expected,
        actual,
        test: test_wrap(
            "c05_replay",
            &format!(
                "    let mut c = HashMapContext::<DefaultNumericTypes>::new();\n    c.set_function(\"f\".into(), Function::new(|a| Ok(a.clone()))).unwrap();\n    let tree = build_operator_tree::<DefaultNumericTypes>({:?});\n    // reference tree: {}\n    // reference value: {}\n    panic!(\"{{:?}} / {{:?}} / {{:?}}\", tree, eval_with_context_mut({:?}, &mut c), c);\n",
                src,
                want.show(),
                describe(&rref),
                src
            ),
        ),
    };
    let tree = match guarded(|| build_operator_tree::<evalexpr::DefaultNumericTypes>(&src)) {
        Err(p) => {
            st.violation(mk("panic", want.show(), format!("panic at {}: {}", p.location, p.message)));
            return;
        },
        Ok(Err(e)) => {
            st.violation(mk("parse-error", want.show(), format!("Err({:?})", e)));
            return;
        },
        Ok(Ok(t)) => t,
    };
    let got = node_to_nt(&tree);
    if got != want {
        st.violation(mk("tree-mismatch", want.show(), got.show()));
        return;
    }
    // value, final context, call log
    let log: Arc<Mutex<Vec<RV>>> = Arc::new(Mutex::new(Vec::new()));
    let mut c = HCtx::new();
    let l2 = log.clone();
    c.set_function(
        "f".into(),
        Function::new(move |a| {
            l2.lock().unwrap().push(RV::from_ev(a));
            Ok(a.clone())
        }),
    )
    .unwrap();
    let real = match guarded(|| tree.eval_with_context_mut(&mut c)) {
        Ok(r) => r,
        Err(p) => {
            st.violation(mk("panic", describe(&rref), format!("panic at {}: {}", p.location, p.message)));
            return;
        },
    };
    st.evaluations += 1;
    let log_real: Vec<String> = log.lock().unwrap().iter().map(|v| v.key()).collect();
    st.count(if real.is_ok() { "evaluated-ok" } else { "evaluated-err" });
    st.distinct("outcomes", &res_key(&real));
    if rc.unclaimed {
        return;
    }
    // the shared-context form evaluates the same elements in the same order (and fails at the first
    // assignment it applies)
    {
        let mut ri = RCtx::new();
        ri.funcs.insert("f".into(), RFn::Identity);
        let iref = ri.eval(&ast, Mode::Immutable);
        log.lock().unwrap().clear();
        let mut ci = HCtx::new();
        let l3 = log.clone();
        ci.set_function(
            "f".into(),
            Function::new(move |a| {
                l3.lock().unwrap().push(RV::from_ev(a));
                Ok(a.clone())
            }),
        )
        .unwrap();
        match guarded(|| tree.eval_with_context(&ci)) {
            Err(p) => {
                st.violation(mk("panic", describe(&iref), format!("panic at {}: {}", p.location, p.message)));
                return;
            },
            Ok(ireal) => {
                st.evaluations += 1;
                let ok = ri.unclaimed
                    || result_matches(&iref, &ireal)
                    || match (&ri.opassign_alt, &ireal) {
                        (Some(alt), Err(e)) => err_matches(alt, e),
                        _ => false,
                    };
                let ilog: Vec<String> = log.lock().unwrap().iter().map(|v| v.key()).collect();
                let ilog_ref: Vec<String> = ri.log.iter().map(|(_, v)| v.key()).collect();
                if !ok || (!ri.unclaimed && ilog != ilog_ref) {
                    st.violation(mk(
                        "shared-context-value-mismatch",
                        format!("eval_with_context: {} with call log {:?}", describe(&iref), ilog_ref),
                        format!("{} with call log {:?}", res_dbg(&ireal), ilog),
                    ));
                    return;
                }
            },
        }
    }
    // restore the mutable run's log for the comparison below
    let vars_ref: Vec<(String, String)> = rc.vars.iter().map(|(k, v)| (k.clone(), v.key())).collect();
    let vars_real = observe_vars(&c);
    let log_ref: Vec<String> = rc.log.iter().map(|(_, v)| v.key()).collect();
    if !result_matches(&rref, &real) || vars_ref != vars_real || log_real != log_ref {
        st.violation(mk(
            "value-mismatch",
            format!("{} with final variables {:?}, call log {:?}", describe(&rref), vars_ref, log_ref),
            format!("{} with final variables {:?}, call log {:?}", res_dbg(&real), vars_real, log_real),
        ));
        return;
    }
    // the context-free form of the same tree (no user function there): the value of evaluation in a fresh context
    if !as_call && log_ref.is_empty() && !src.contains("f(") {
        let r = guarded(|| tree.eval());
        st.evaluations += 1;
        let ok = match &r {
            Ok(r) => result_matches(&rref, r),
            Err(_) => false,
        };
        if !ok {
            st.violation(mk(
                "context-free-value-mismatch",
                format!("Node::eval(): {}", describe(&rref)),
                match &r { Ok(x) => res_dbg(x), Err(p) => format!("panic at {}: {}", p.location, p.message) },
            ));
            return;
        }
        st.count("context-free-evaluations");
    }
    // "a chain ending in `;` evaluates to the empty value": the typed accessor for exactly that value
    // must accept the sequence and apply the same effects
    if matches!(&rref, Ok(RV::Empty)) {
        log.lock().unwrap().clear();
        let mut ce = HCtx::new();
        let l4 = log.clone();
        ce.set_function(
            "f".into(),
            Function::new(move |a| {
                l4.lock().unwrap().push(RV::from_ev(a));
                Ok(a.clone())
            }),
        )
        .unwrap();
        let r = guarded(|| tree.eval_empty_with_context_mut(&mut ce));
        st.evaluations += 1;
        st.count("empty-valued-sequences-through-eval_empty");
        let elog: Vec<String> = log.lock().unwrap().iter().map(|v| v.key()).collect();
        let good = matches!(&r, Ok(Ok(()))) && observe_vars(&ce) == vars_ref && elog == log_ref;
        if !good {
            st.violation(mk(
                "empty-valued-sequence-through-eval_empty_with_context_mut",
                format!("Ok(()) with final variables {:?}, call log {:?}", vars_ref, log_ref),
                format!("{} with final variables {:?}, call log {:?}", match &r { Ok(x) => format!("{:?}", x), Err(p) => format!("panic at {}: {}", p.location, p.message) }, observe_vars(&ce), elog),
            ));
        }
    }
}

/// Long sequences: every size n of `scale::sizes`, four separator patterns, an absent element or a
/// nested group at chosen positions, effects in every element.
fn scaling(thorough: bool) -> Stats {
    super::on_big_stack(move || {
        let mut st = Stats::new();
        for n in super::scale::sizes(thorough) {
            let patterns: Vec<Vec<bool>> = vec![
                vec![false; n],                                  // one long tuple
                vec![true; n],                                   // one long chain
                (0..n).map(|i| i % 2 == 1).collect(),            // a, b; c, d; ...
                (0..n).map(|i| i % 5 == 4).collect(),            // tuples of five chained
                (0..n).map(|i| i % 7 != 6).collect(),            // chains with a tuple at every seventh
            ];
            let positions: Vec<usize> = if n <= 20 { (0..=n).collect() } else { vec![0, 1, n / 2, n - 1, n] };
            for seps in &patterns {
                // plain literals
                let base = Seq {
                    seps: seps.clone(),
                    elems: (0..=n).map(|i| Elem::Lit(i as i64)).collect(),
                };
                check(&base, false, &mut st);
                check(&base, true, &mut st);
                // effects everywhere: a += i after a first assignment
                let mut eff = base.clone();
                eff.elems[0] = Elem::Assign("a", 0);
                for i in 1..=n {
                    eff.elems[i] = Elem::AddAssign("a", i as i64);
                }
                check(&eff, false, &mut st);
                for &k in &positions {
                    let mut s1 = base.clone();
                    s1.elems[k] = Elem::Empty;
                    check(&s1, false, &mut st);
                    let mut s2 = base.clone();
                    s2.elems[k] = Elem::Group(Seq {
                        seps: vec![false, true],
                        elems: vec![Elem::Lit(7), Elem::Assign("b", k as i64), Elem::Read("b")],
                    });
                    check(&s2, false, &mut st);
                    st.count("scaling-family-sequences");
                }
            }
            // an element wrapped in n parentheses (depth n), at the start, in the middle and at the end of a
            // short sequence of each separator pattern, also nested inside an outer group
            fn wrap(mut e: Elem, depth: usize) -> Elem {
                for _ in 0..depth {
                    e = Elem::Group(Seq { seps: vec![], elems: vec![e] });
                }
                e
            }
            for seps in [vec![false, false], vec![true, true], vec![false, true], vec![true, false]] {
                for k in 0..3 {
                    let mut elems = vec![Elem::Assign("a", 1), Elem::Lit(2), Elem::Read("a")];
                    elems[k] = wrap(if k == 0 { Elem::Assign("a", 5) } else { Elem::Lit(9) }, n);
                    let s = Seq { seps: seps.clone(), elems };
                    check(&s, false, &mut st);
                    check(&s, true, &mut st);
                    let outer = Seq { seps: vec![false], elems: vec![Elem::Group(s), Elem::Lit(3)] };
                    check(&outer, false, &mut st);
                    st.count("scaling-family-sequences");
                }
            }
        }
        st
    })
}

pub fn run(cfg: &Cfg) -> Report {
    let (n_simple, n_group, n_call) = cfg.tier.pick((4, 3, 3), (6, 4, 4));
    let nested = true;
    let gs = groups(cfg.tier.pick(2, 3), nested);
    let ngroups = gs.len();
    // work items: (kind, n, slot)
    #[derive(Clone, Copy)]
    enum Work {
        Simple(usize, bool),
        Grouped(usize, usize),
        UnitParens(usize),
        /// the same options in every slot, so that neighbouring elements can be spelled identically
        Repeated(usize),
    }
    let mut work = Vec::new();
    for n in 0..=n_simple {
        work.push(Work::Simple(n, false));
    }
    for n in 0..=n_call {
        work.push(Work::Simple(n, true));
    }
    for n in 0..=n_group {
        for slot in 0..=n {
            work.push(Work::Grouped(n, slot));
        }
    }
    for n in 0..=n_group {
        work.push(Work::UnitParens(n));
    }
    for n in 1..=n_group {
        work.push(Work::Repeated(n));
    }
    let mut stats = par_items(&work, |_, w| {
        let mut st = Stats::new();
        match *w {
            Work::Simple(n, as_call) => {
                for_each_seq(n, &|i| simple_options(i, "a", true), &mut |s| check(s, as_call, &mut st));
                st.add(&format!("skeletons-with-{}-separators{}", n, if as_call { "-as-call-argument" } else { "" }), 1 << n);
            },
            Work::Grouped(n, slot) => {
                for_each_seq(
                    n,
                    &|i| {
                        if i == slot {
                            gs.clone()
                        } else {
                            vec![Elem::Empty, Elem::Lit(i as i64 + 1), Elem::Assign("a", i as i64 + 1)]
                        }
                    },
                    &mut |s| check(s, false, &mut st),
                );
            },
            Work::Repeated(n) => {
                for_each_seq(
                    n,
                    &|_| vec![Elem::Empty, Elem::Lit(1), Elem::Assign("a", 1), Elem::Read("a"), Elem::AddAssign("a", 7), Elem::Call(7)],
                    &mut |s| check(s, false, &mut st),
                );
            },
            Work::UnitParens(n) => {
                for_each_seq(n, &|i| vec![Elem::Empty, Elem::UnitParens, Elem::Lit(i as i64 + 1)], &mut |s| check(s, false, &mut st));
            },
        }
        st
    });
    stats.merge(scaling(cfg.tier == Tier::Thorough));
    for s in ["1, 2; 3", "1; 2, 3; 4", "a = 1; a, 2; a += 10", ", ; ,", "(b = 6, ; 7); , a = 3", "f(1, ; 2)"] {
        let t = build_operator_tree::<evalexpr::DefaultNumericTypes>(s);
        stats.sample(json!({"source": s, "tree": t.as_ref().map(|t| node_to_nt(t).show()).map_err(|e| format!("{:?}", e)), "value": format!("{:?}", evalexpr::eval(s))}));
    }
    let guards = vec![
        ("sequences mixing `,` and `;` were enumerated".to_string(), stats.get("nontrivial-distinct") > 100),
        ("some evaluations succeeded and some failed".to_string(), stats.get("evaluated-ok") > 0 && stats.get("evaluated-err") > 0),
    ];
    Report {
        property: ID,
        level: "exploration",
        rule: format!("every separator skeleton in {{',', ';'}}^n, n <= {n_simple}, with every filling of the n+1 slots from {{absent, literal, `a = k`, read of a, `a += k`}}; the same for n <= {n_call} as the argument of a recording function f(...); for n <= {n_group} every skeleton with one slot (each position) holding each of {ngroups} parenthesised nested sequences (depth <= 2) and the other slots from {{absent, literal, assignment}}; and skeletons over {{absent, `()`, literal}}; and skeletons of n <= {n_group} separators whose slots all range over the same {{absent, 1, `a = 1`, a, `a += 7`, `f(7)`}} (identically spelled neighbours with effects); plus scaling families: sequences of every size 1..20 and up to 129 (quick) / 1..40 and up to 400 (thorough) in five separator patterns, with literals, with an effect in every element, and with an absent element or a nested group at chosen positions. Non-trivial = mixes both separators; each source is enumerated once"),
        nontrivial_set: "counter:nontrivial-distinct",
        exhaustive: true,
        bound_completed: format!("{n_simple} separators (simple elements), {n_group} with nested groups"),
        assumptions: vec![
            "reference tree: split at `;`, then at `,`; a single part is no sequence node; an absent element is the empty value".into(),
            "value/effects oracle: reference interpreter mc/src/refmodel/interp.rs (strict left-to-right, type-safe store)".into(),
        ],
        stats,
        guards,
        extra: json!({"nested_group_options": ngroups}),
    }
}

pub fn replay(case: &J) -> i32 {
    // re-parse and re-evaluate the recorded source against the recorded reference tree
    let src = case["input"]["source"].as_str().unwrap_or_else(|| machinery_error("C05 replay: no source"));
    let want = case["input"]["reference_tree"].as_str().unwrap_or("");
    let mut st = Stats::new();
    st.evaluations = 1;
    let actual = match super::c02::parse_nt(src) {
        Err(p) => format!("panic at {}: {}", p.location, p.message),
        Ok(Err(e)) => format!("Err({:?})", e),
        Ok(Ok(t)) => t.show(),
    };
    println!("source {:?}: tree {} value {:?}", src, actual, evalexpr::eval(src));
    if actual != want {
        st.violation(Violation {
            property: ID,
            kind: "tree-mismatch".into(),
            input: case["input"].clone(),
            expected: want.into(),
            actual,
            test: String::new(),
        });
    } else if case["kind"].as_str() == Some("value-mismatch") {
        println!("(tree agrees; the recorded case was a value/effect mismatch: expected {})", case["expected"]);
        // value replays need the generating AST; the enumeration is cheap, so re-run the quick tier instead
        let rep = run(&Cfg {
            tier: Tier::Quick,
            seed: 0,
            overflow_checks: true,
            part_out: None,
            merge_parts: vec![],
            start: std::time::Instant::now(),
        });
        if let Some(v) = rep.stats.violations.into_iter().find(|v| v.input["source"] == case["input"]["source"]) {
            st.violation(v);
        }
    }
    super::replay_verdict(ID, &st)
}
