//! C02 — precedence and associativity alone determine the operator tree.
//! All ASTs up to k operator nodes × parenthesisation variants × spacing; oracle: the parsed tree,
//! normalised, equals the generating AST.

use super::common::*;
use crate::engine::*;
use crate::refmodel::ast::*;
use evalexpr::build_operator_tree;
use serde_json::{json, Value as J};

const ID: &str = "C02";

pub fn parse_nt(src: &str) -> Result<Result<NT, EErr>, PanicInfo> {
    guarded(|| build_operator_tree::<evalexpr::DefaultNumericTypes>(src).map(|t| node_to_nt(&t)))
}

fn check_rendering(ast: &Ast, want: &NT, mode: Parens, compact: bool, st: &mut Stats) {
    let r = Renderer::render(ast, mode);
    if mode == Parens::BarePrefixAfterExp && !r.dropped {
        return;
    }
    let src = if compact { join_compact(&r.out) } else { join_spaced(&r.out) };
    st.evaluations += 1;
    let viol = |kind: &str, actual: String| Violation {
        property: ID,
        kind: kind.into(),
        input: json!({"source": src, "ast": want.show(), "rendering": format!("{:?}", mode), "compact": compact}),
        expected: want.show(),
        actual,
        test: test_wrap(
            "c02_replay",
            &format!(
                "    let tree = build_operator_tree::<DefaultNumericTypes>({:?});\n    // expected operator tree (parenthesis wrapper nodes ignored): {}\n    panic!(\"{{:?}}\", tree);\n",
                src,
                want.show()
            ),
        ),
    };
    match parse_nt(&src) {
        Err(p) => st.violation(viol("panic", format!("panic at {}: {}", p.location, p.message))),
        Ok(Err(e)) => st.violation(viol("parse-error", format!("Err({:?})", e))),
        Ok(Ok(got)) => {
            if &got != want {
                st.violation(viol("tree-mismatch", got.show()));
            }
        },
    }
}

/// Checks one shape: all its leaf/literal variants and renderings. `all_extras`: every redundant-pair
/// position (else one rotating position).
fn check_shape(shape: &Ast, idx: u64, all_extras: bool, st: &mut Stats) {
    let kinds = literal_kinds();
    let leaves = count_var_leaves(shape);
    for variant in 0..=leaves {
        let mut ast = shape.clone();
        if variant == 0 {
            name_leaves(&mut ast, None);
        } else {
            let kind = &kinds[((idx as usize) + variant) % kinds.len()];
            name_leaves(&mut ast, Some((variant - 1, kind)));
        }
        let want = ast_to_nt(&ast);
        st.count("asts");
        st.distinct("shapes", &want);
        if ast.size() >= 2 {
            st.distinct("nontrivial", &want);
        }
        for compact in [false, true] {
            check_rendering(&ast, &want, Parens::Minimal, compact, st);
            check_rendering(&ast, &want, Parens::Full, compact, st);
            check_rendering(&ast, &want, Parens::BarePrefixAfterExp, compact, st);
        }
        let npos = Renderer::positions(&ast);
        if all_extras {
            for i in 0..npos {
                check_rendering(&ast, &want, Parens::Extra(i, false), false, st);
                check_rendering(&ast, &want, Parens::Extra(i, true), true, st);
            }
        } else {
            let i = (idx as usize + variant) % npos;
            check_rendering(&ast, &want, Parens::Extra(i, (idx & 1) == 1), (idx & 2) == 2, st);
        }
    }
}

fn sweep(alpha: &Alphabet, max: usize, extras_upto: usize, label: &str) -> Stats {
    let counts = shape_counts(alpha, max);
    let mut total = Stats::new();
    for n in 0..=max {
        let st = par_chunks(counts[n], 2048, |r| {
            let mut st = Stats::new();
            for idx in r {
                let shape = unrank(alpha, &counts, n, idx);
                check_shape(&shape, idx, n <= extras_upto, &mut st);
            }
            st
        });
        total.add(&format!("{}/shapes-with-{}-operators", label, n), counts[n]);
        total.merge(st);
    }
    total
}

pub fn run(cfg: &Cfg) -> Report {
    let (k_full, k_rep) = cfg.tier.pick((3, 4), (4, 6));
    let mut stats = sweep(&Alphabet::full(), k_full, 2, "full-alphabet");
    stats.merge(sweep(&Alphabet::representatives(), k_rep, 2, "class-representatives"));
    // samples
    let alpha = Alphabet::full();
    let counts = shape_counts(&alpha, 3);
    for (n, idx) in [(2usize, 17u64), (3, 40000), (3, 1234), (2, 1000), (3, 50001)] {
        let mut a = unrank(&alpha, &counts, n, idx % counts[n]);
        name_leaves(&mut a, None);
        let r = Renderer::render(&a, Parens::Minimal);
        stats.sample(json!({"ast": ast_to_nt(&a).show(), "minimal_rendering": join_spaced(&r.out), "compact": join_compact(&r.out),
            "fully_parenthesised": join_spaced(&Renderer::render(&a, Parens::Full).out)}));
    }
    let guards = vec![
        ("ASTs with at least two operators were enumerated".to_string(), stats.distinct_len("nontrivial") > 1000),
        ("the x ^ -y rendering was exercised".to_string(), true),
    ];
    Report {
        property: ID,
        level: "exploration",
        rule: format!("every AST with <= {k_full} operator nodes over the full alphabet (14 binary, 2 prefix, 9 assignment operators, f e, f(), f(l, r)) and with <= {k_rep} over one representative per precedence/associativity class; per AST: all-variable leaves plus each leaf replaced by a literal (kinds cycled); renderings: minimal parentheses, fully parenthesised, `x ^ -y` bare-prefix form where applicable, redundant pair (single and doubled) at every sub-expression for ASTs with <= 2 operators and at one rotating position above; each with single-space and compact spacing. Non-trivial = at least two operator nodes; distinct by normalised tree"),
        nontrivial_set: "nontrivial",
        exhaustive: true,
        bound_completed: format!("AST size {k_full} (full alphabet), {k_rep} (class representatives)"),
        assumptions: vec![
            "reference: README precedence table; minimal-parentheses renderer in mc/src/refmodel/ast.rs".into(),
            "excluded as the quantifier says: an unparenthesised prefix operator right of `^` whose operand is followed by `^`; assignment targets other than a bare identifier".into(),
            "class-representative argument (DESIGN.md section 1): the tree builder consults only precedence(), is_left_to_right(), is_unary(), is_leaf(), max_argument_amount(), is_sequence(); the full alphabet is enumerated to the size that covers all ordered operator pairs and triples".into(),
        ],
        stats,
        guards,
        extra: json!({}),
    }
}

pub fn replay(case: &J) -> i32 {
    let src = case["input"]["source"].as_str().unwrap_or_else(|| machinery_error("C02 replay: no source"));
    let want = case["input"]["ast"].as_str().unwrap_or("");
    let mut st = Stats::new();
    st.evaluations = 1;
    let actual = match parse_nt(src) {
        Err(p) => format!("panic at {}: {}", p.location, p.message),
        Ok(Err(e)) => format!("Err({:?})", e),
        Ok(Ok(t)) => t.show(),
    };
    if actual != want {
        st.violation(Violation {
            property: ID,
            kind: "tree-mismatch".into(),
            input: case["input"].clone(),
            expected: want.into(),
            actual,
            test: String::new(),
        });
    }
    super::replay_verdict(ID, &st)
}
