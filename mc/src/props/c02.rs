//! C02 — precedence and associativity alone determine the operator tree.
//! All ASTs up to k operator nodes × parenthesisation variants × spacing; oracle: the parsed tree,
//! normalised, equals the generating AST.

use super::common::*;
use crate::engine::*;
use crate::refmodel::ast::*;
use evalexpr::build_operator_tree;
use serde_json::{json, Value as J};

const ID: &str = "C02";

pub fn parse_nt(src: &str) -> Result<Result<NT, EErr>, PanicInfo> {
    guarded(|| build_operator_tree::<evalexpr::DefaultNumericTypes>(src).map(|t| node_to_nt(&t)))
}

fn check_rendering(ast: &Ast, want: &NT, mode: Parens, compact: bool, st: &mut Stats) {
    check_rendering_with(ast, want, mode, compact, None, st)
}

/// `separator`: if given, the tokens are joined by it instead of single spaces (a line feed, a tab ...).
fn check_rendering_with(ast: &Ast, want: &NT, mode: Parens, compact: bool, separator: Option<&str>, st: &mut Stats) {
    let r = Renderer::render(ast, mode);
    if mode == Parens::BarePrefixAfterExp && !r.dropped {
        return;
    }
    let src = match separator {
        Some(sep) => {
            let src = r.out.iter().map(|t| t.text()).collect::<Vec<_>>().join(sep);
            // admissible only if the reference lexer reads the same tokens as from the spaced rendering
            // (`/` next to `/**/` starts a line comment)
            match (crate::refmodel::lexer::lex(&src), crate::refmodel::lexer::lex(&join_spaced(&r.out))) {
                (Ok(a), Ok(b)) if crate::refmodel::lexer::same_tokens(&a, &b) => src,
                _ => return,
            }
        },
        None => {
            if compact {
                join_compact(&r.out)
            } else {
                join_spaced(&r.out)
            }
        },
    };
    st.evaluations += 1;
    let viol = |kind: &str, actual: String| Violation {
        property: ID,
        kind: kind.into(),
        input: json!({"source": src, "ast": want.show(), "rendering": format!("{:?}", mode), "compact": compact}),
        expected: want.show(),
        actual,
        test: test_wrap(
            "c02_replay",
            &format!(
                "    let tree = build_operator_tree::<DefaultNumericTypes>({:?});\n    // expected operator tree (parenthesis wrapper nodes ignored): {}\n    panic!(\"{{:?}}\", tree);\n",
                src,
                want.show()
            ),
        ),
    };
    match parse_nt(&src) {
        Err(p) => st.violation(viol("panic", format!("panic at {}: {}", p.location, p.message))),
        Ok(Err(e)) => st.violation(viol("parse-error", format!("Err({:?})", e))),
        Ok(Ok(got)) => {
            if &got != want {
                st.violation(viol("tree-mismatch", got.show()));
            }
        },
    }
}

/// Checks one shape: all its leaf/literal variants and renderings. `all_extras`: every redundant-pair
/// position (else one rotating position).
fn check_shape(shape: &Ast, idx: u64, all_extras: bool, light: bool, count_distinct: bool, st: &mut Stats) {
    let kinds = literal_kinds();
    let leaves = count_var_leaves(shape);
    // variants: all leaves variables; each leaf replaced by a literal — every literal kind for ASTs
    // with <= 2 operators, one kind (cycled) above
    let all_kinds = shape.size() <= 2;
    let per_leaf = if all_kinds { kinds.len() } else { 1 };
    for variant in 0..=(leaves * per_leaf) {
        let mut ast = shape.clone();
        if variant == 0 {
            name_leaves(&mut ast, None);
        } else {
            let leaf = (variant - 1) / per_leaf;
            let kind = if all_kinds { &kinds[(variant - 1) % per_leaf] } else { &kinds[((idx as usize) + variant) % kinds.len()] };
            name_leaves(&mut ast, Some((leaf, kind)));
        }
        let want = ast_to_nt(&ast);
        st.count("asts");
        // every AST is enumerated exactly once per sweep; the representative sweep repeats ASTs of the
        // full sweep only at sizes the full sweep covers, and those are not counted again
        if count_distinct && ast.size() >= 2 {
            st.count("nontrivial-distinct");
        }
        if light {
            // deepest level: minimal rendering only, all-variable leaves
            check_rendering(&ast, &want, Parens::Minimal, false, st);
            check_rendering(&ast, &want, Parens::Minimal, true, st);
            check_rendering(&ast, &want, Parens::BarePrefixAfterExp, false, st);
            break;
        }
        for compact in [false, true] {
            check_rendering(&ast, &want, Parens::Minimal, compact, st);
            check_rendering(&ast, &want, Parens::Full, compact, st);
            check_rendering(&ast, &want, Parens::BarePrefixAfterExp, compact, st);
        }
        // the same tokens on separate lines, separated by tabs, by a comment: layout is not syntax
        if variant == 0 {
            for sep in ["\n", "\t", " \n ", "/**/", " //c\n"] {
                check_rendering_with(&ast, &want, Parens::Minimal, false, Some(sep), st);
            }
            // every white-space character there is (the vertical tab, U+0085, U+00A0, U+2000.., U+3000 ...) as
            // the separator: all of them for ASTs with <= 2 operators, one (rotating) above
            let ws: Vec<char> = (0u32..=0x3000).filter_map(char::from_u32).filter(|c| c.is_whitespace()).collect();
            if all_kinds {
                for w in &ws {
                    check_rendering_with(&ast, &want, Parens::Minimal, false, Some(&w.to_string()), st);
                    st.count("white-space-kind-renderings");
                }
            } else {
                let w = ws[(idx as usize) % ws.len()];
                check_rendering_with(&ast, &want, Parens::Minimal, false, Some(&w.to_string()), st);
                st.count("white-space-kind-renderings");
            }
        }
        let npos = Renderer::positions(&ast);
        if all_extras {
            for i in 0..npos {
                check_rendering(&ast, &want, Parens::Extra(i, false), false, st);
                check_rendering(&ast, &want, Parens::Extra(i, true), true, st);
            }
        } else {
            let i = (idx as usize + variant) % npos;
            check_rendering(&ast, &want, Parens::Extra(i, (idx & 1) == 1), (idx & 2) == 2, st);
        }
    }
}

/// Renames the k-th identifier of the given kind (0 variable read, 1 assignment target, 2 function), in
/// source order; returns false if there is no such identifier.
fn rename_identifier(a: &mut Ast, kind: u8, k: usize, new: &str) -> bool {
    fn go(a: &mut Ast, kind: u8, k: usize, n: &mut usize, new: &str) -> bool {
        match a {
            Ast::Var(name) => {
                if kind == 0 {
                    if *n == k {
                        *name = new.to_string();
                        return true;
                    }
                    *n += 1;
                }
                false
            },
            Ast::Lit(_) | Ast::Unit => false,
            Ast::Bin(_, l, r) => go(l, kind, k, n, new) || go(r, kind, k, n, new),
            Ast::Pre(_, e) | Ast::Partial(_, e) => go(e, kind, k, n, new),
            Ast::Asg(_, name, e) => {
                if kind == 1 {
                    if *n == k {
                        *name = new.to_string();
                        return true;
                    }
                    *n += 1;
                }
                go(e, kind, k, n, new)
            },
            Ast::Call(name, e) => {
                if kind == 2 {
                    if *n == k {
                        *name = new.to_string();
                        return true;
                    }
                    *n += 1;
                }
                go(e, kind, k, n, new)
            },
            Ast::Tuple(es) | Ast::Chain(es) => es.iter_mut().any(|e| go(e, kind, k, n, new)),
        }
    }
    go(a, kind, k, &mut 0, new)
}

/// Identifiers are just names: a variable, an assignment target or a function may be called like a builtin
/// function, a namespace or a keyword-looking word without changing the tree. Every identifier position of
/// the shape takes each such name in turn.
fn check_builtin_named_identifiers(shape: &Ast, st: &mut Stats) {
    const NAMES: [&str; 6] = ["max", "if", "math::abs", "len", "str::from", "floor"];
    for kind in 0..3u8 {
        for k in 0..8 {
            let mut any = false;
            for name in NAMES {
                let mut ast = shape.clone();
                name_leaves(&mut ast, None);
                if !rename_identifier(&mut ast, kind, k, name) {
                    break;
                }
                any = true;
                let want = ast_to_nt(&ast);
                st.count("asts-with-builtin-named-identifiers");
                for compact in [false, true] {
                    check_rendering(&ast, &want, Parens::Minimal, compact, st);
                    check_rendering(&ast, &want, Parens::Full, compact, st);
                }
            }
            if !any {
                break;
            }
        }
    }
}

/// `light_from`: sizes >= this are checked in light mode; `distinct_from`: sizes >= this count as distinct cases.
fn sweep(alpha: &Alphabet, max: usize, extras_upto: usize, light_from: usize, distinct_from: usize, label: &str) -> Stats {
    let counts = shape_counts(alpha, max);
    let mut total = Stats::new();
    for n in 0..=max {
        let st = par_chunks(counts[n], 2048, |r| {
            let mut st = Stats::new();
            for idx in r {
                let shape = unrank(alpha, &counts, n, idx);
                check_shape(&shape, idx, n <= extras_upto, n >= light_from, n >= distinct_from, &mut st);
                if n <= 2 {
                    check_builtin_named_identifiers(&shape, &mut st);
                }
            }
            st
        });
        total.add(&format!("{}/shapes-with-{}-operators", label, n), counts[n]);
        total.merge(st);
    }
    total
}

/// Every flat infix sequence `x0 op x1 op ... xL` over the 14 binary operators: the reference tree
/// comes from precedence climbing, independent of the AST enumeration and of the renderer.
fn flat_sequences(max_len: usize) -> Stats {
    use crate::refmodel::ops::BINOPS;
    let mut total = Stats::new();
    for len in 1..=max_len {
        let count = (BINOPS.len() as u64).pow(len as u32);
        total.merge(par_chunks(count, 4096, |r| {
            let mut st = Stats::new();
            for code in r {
                let mut c = code;
                let ops: Vec<_> = (0..len)
                    .map(|_| {
                        let o = BINOPS[(c % 14) as usize];
                        c /= 14;
                        o
                    })
                    .collect();
                let operands: Vec<Ast> = (0..=len).map(super::scale::var).collect();
                let ast = super::scale::climb(&operands, &ops);
                let want = ast_to_nt(&ast);
                let toks = Renderer::render(&ast, Parens::Minimal).out;
                if toks.iter().any(|t| matches!(t, Tok::Sym("(") | Tok::Sym(")"))) {
                    machinery_error("C02: precedence climbing and the minimal renderer disagree on a flat sequence");
                }
                check_rendering(&ast, &want, Parens::Minimal, false, &mut st);
                check_rendering(&ast, &want, Parens::Minimal, true, &mut st);
                if len >= 5 {
                    st.count("nontrivial-distinct");
                }
                st.count("flat-sequences");
            }
            st
        }));
    }
    total
}

/// Structured large inputs: chains, ladders and nestings of every size in `scale::sizes`.
fn scaling(thorough: bool) -> Stats {
    use super::scale::*;
    use crate::refmodel::ops::{BinOp, BINOPS};
    super::on_big_stack(move || {
        let mut st = Stats::new();
        for n in sizes(thorough) {
            let mut asts: Vec<Ast> = Vec::new();
            for op in BINOPS {
                asts.push(left_chain(op, n));
            }
            asts.push(assign_chain(n));
            asts.push(prefix_chain(n));
            asts.push(call_chain(n));
            for op in [BinOp::Add, BinOp::Exp, BinOp::Or] {
                asts.push(right_nested(op, n));
            }
            // precedence ladders: operators cycling through the table upwards and downwards
            let up: Vec<BinOp> = (0..n).map(|i| [BinOp::Or, BinOp::And, BinOp::Eq, BinOp::Add, BinOp::Mul, BinOp::Exp][i % 6]).collect();
            let down: Vec<BinOp> = up.iter().rev().cloned().collect();
            let operands: Vec<Ast> = (0..=n).map(var).collect();
            asts.push(climb(&operands, &up));
            asts.push(climb(&operands, &down));
            // an assignment whose right-hand side is a long ladder, inside a call
            asts.push(Ast::Call("f".into(), Box::new(Ast::Asg(None, "p".into(), Box::new(climb(&operands, &up))))));
            for ast in asts {
                let want = ast_to_nt(&ast);
                for compact in [false, true] {
                    check_rendering(&ast, &want, Parens::Minimal, compact, &mut st);
                    check_rendering(&ast, &want, Parens::Full, compact, &mut st);
                }
                check_rendering(&ast, &want, Parens::Extra(n / 2, true), false, &mut st);
                st.count("scaling-family-asts");
                st.count("nontrivial-distinct");
            }
        }
        st
    })
}

pub fn run(cfg: &Cfg) -> Report {
    let (k_full, k_rep, light_from) = cfg.tier.pick((3, 4, 99), (4, 6, 6));
    let mut stats = sweep(&Alphabet::full(), k_full, 2, 99, 0, "full-alphabet");
    stats.merge(sweep(&Alphabet::representatives(), k_rep, 2, light_from, k_full + 1, "class-representatives"));
    stats.merge(flat_sequences(cfg.tier.pick(5, 6)));
    stats.merge(scaling(cfg.tier == Tier::Thorough));
    // samples
    let alpha = Alphabet::full();
    let counts = shape_counts(&alpha, 3);
    for (n, idx) in [(2usize, 17u64), (3, 40000), (3, 1234), (2, 1000), (3, 50001)] {
        let mut a = unrank(&alpha, &counts, n, idx % counts[n]);
        name_leaves(&mut a, None);
        let r = Renderer::render(&a, Parens::Minimal);
        stats.sample(json!({"ast": ast_to_nt(&a).show(), "minimal_rendering": join_spaced(&r.out), "compact": join_compact(&r.out),
            "fully_parenthesised": join_spaced(&Renderer::render(&a, Parens::Full).out)}));
    }
    let guards = vec![
        ("ASTs with at least two operators were enumerated".to_string(), stats.get("nontrivial-distinct") > 1000),
        ("the x ^ -y rendering was exercised".to_string(), true),
    ];
    Report {
        property: ID,
        level: "exploration",
        rule: format!("every AST with <= {k_full} operator nodes over the full alphabet (14 binary, 2 prefix, 9 assignment operators, f e, f(), f(l, r)) and with <= {k_rep} over one representative per precedence/associativity class; per AST: all-variable leaves plus each leaf replaced by a literal (all four literal kinds for ASTs with <= 2 operators, kinds cycled above), and for ASTs with <= 2 operators every variable, assignment-target and function position named like a builtin (`max`, `if`, `math::abs`, `len`, `str::from`, `floor`) in turn; renderings: minimal parentheses, fully parenthesised, `x ^ -y` bare-prefix form where applicable, redundant pair (single and doubled) at every sub-expression for ASTs with <= 2 operators and at one rotating position above; each with single-space and compact spacing; the minimal rendering of the all-variable variant also with its tokens on separate lines, separated by tabs and by comments, and separated by each of the white-space characters of `char::is_whitespace` (all 25 for ASTs with <= 2 operators, one rotating above). the deepest representative level of the thorough tier is checked with the minimal rendering only; plus every flat infix sequence of <= 5 (quick) / 6 (thorough) binary operators over all 14 (reference: precedence climbing), plus scaling families (same-operator chains for all 14 operators, assignment chains, prefix chains, call chains, right-nested groups, precedence ladders up and down) at every size 1..20 and 33, 64, 65, 129 (quick) / 1..40 and up to 400 (thorough). Non-trivial = at least two operator nodes; every AST is enumerated once (representative ASTs are counted only above the full-alphabet size)"),
        nontrivial_set: "counter:nontrivial-distinct",
        exhaustive: true,
        bound_completed: format!("AST size {k_full} (full alphabet), {k_rep} (class representatives)"),
        assumptions: vec![
            "reference: README precedence table; minimal-parentheses renderer in mc/src/refmodel/ast.rs".into(),
            "excluded as the quantifier says: an unparenthesised prefix operator right of `^` whose operand is followed by `^`; assignment targets other than a bare identifier".into(),
            "class-representative argument (DESIGN.md section 1): the tree builder consults only precedence(), is_left_to_right(), is_unary(), is_leaf(), max_argument_amount(), is_sequence(); the full alphabet is enumerated to the size that covers all ordered operator pairs and triples".into(),
        ],
        stats,
        guards,
        extra: json!({}),
    }
}

pub fn replay(case: &J) -> i32 {
    let src = case["input"]["source"].as_str().unwrap_or_else(|| machinery_error("C02 replay: no source"));
    let want = case["input"]["ast"].as_str().unwrap_or("");
    let mut st = Stats::new();
    st.evaluations = 1;
    let actual = match parse_nt(src) {
        Err(p) => format!("panic at {}: {}", p.location, p.message),
        Ok(Err(e)) => format!("Err({:?})", e),
        Ok(Ok(t)) => t.show(),
    };
    if actual != want {
        st.violation(Violation {
            property: ID,
            kind: "tree-mismatch".into(),
            input: case["input"].clone(),
            expected: want.into(),
            actual,
            test: String::new(),
        });
    }
    super::replay_verdict(ID, &st)
}
