//! C03 — operators compute exact, correctly typed results or a typed error.
//! Complete matrix: every operator × (value pool)², three routes (variables, literals, op-assign).

use super::common::*;
use crate::engine::*;
use crate::refmodel::ops::*;
use crate::refmodel::value::*;
use evalexpr::{build_operator_tree, eval, Context};
use serde_json::{json, Value as J};

const ID: &str = "C03";

#[derive(Clone, Copy, PartialEq, Eq, Debug)]
enum Route {
    Vars,
    Lits,
    OpAssign,
}

fn route_name(r: Route) -> &'static str {
    match r {
        Route::Vars => "vars",
        Route::Lits => "literals",
        Route::OpAssign => "op-assign",
    }
}

fn outcome_class(r: &ERes) -> String {
    match r {
        Ok(v) => format!("ok-{:?}", RV::from_ev(v).rtype()),
        Err(e) => match classify_error(e) {
            Some(c) => format!("err-{:?}", c),
            None => "err-other".into(),
        },
    }
}

/// One binary case. Returns None if the route does not apply.
fn run_bin(route: Route, op: BinOp, a: &RV, b: &RV, st: &mut Stats) {
    let exp = binop(op, a, b);
    let src;
    let case = json!({"route": route_name(route), "op": op.sym(), "a": a.to_json(), "b": b.to_json()});
    match route {
        Route::Vars | Route::Lits => {
            let result = if route == Route::Vars {
                src = format!("x {} y", op.sym());
                let c = ctx_with(&[("x", a), ("y", b)]);
                guarded(|| evalexpr::eval_with_context(&src, &c))
            } else {
                let (la, lb) = match (a.literal(), b.literal()) {
                    (Some(x), Some(y)) => (x, y),
                    _ => return,
                };
                src = format!("{} {} {}", la, op.sym(), lb);
                guarded(|| eval(&src))
            };
            st.evaluations += 1;
            let result = match result {
                Ok(r) => r,
                Err(p) => {
                    st.violation(Violation {
                        property: ID,
                        kind: "panic".into(),
                        input: case,
                        expected: expect_describe(&exp),
                        actual: format!("panic at {}: {}", p.location, p.message),
                        test: test_for(route, &src, a, b, &exp, None),
                    });
                    return;
                },
            };
            st.count(&format!("outcome/{}", outcome_class(&result)));
            if exp.alt.is_some() {
                st.count("accepted-both-ways-cases");
            }
            if !matches!(exp.primary, ROut::Err(ErrClass::Type)) {
                st.distinct("nontrivial", &(route as u8, op, a.key(), b.key()));
            }
            st.distinct("outcomes", &(op, res_key(&result)));
            if !accepts(&exp, &result) {
                st.violation(Violation {
                    property: ID,
                    kind: "wrong-result".into(),
                    input: case,
                    expected: expect_describe(&exp),
                    actual: res_dbg(&result),
                    test: test_for(route, &src, a, b, &exp, None),
                });
            }
        },
        Route::OpAssign => {
            src = format!("x {}= y", op.sym());
            let mut c = ctx_with(&[("x", a), ("y", b)]);
            let result = guarded(|| evalexpr::eval_with_context_mut(&src, &mut c));
            st.evaluations += 1;
            let result = match result {
                Ok(r) => r,
                Err(p) => {
                    st.violation(Violation {
                        property: ID,
                        kind: "panic".into(),
                        input: case,
                        expected: expect_describe(&exp),
                        actual: format!("panic at {}: {}", p.location, p.message),
                        test: test_for(route, &src, a, b, &exp, None),
                    });
                    return;
                },
            };
            let x_after = c.get_value("x").map(RV::from_ev);
            // `x op= y` behaves as `x = x op y` in a type-safe context
            let ok_for = |o: &ROut| -> bool {
                match o {
                    ROut::Val(r) if r.rtype() == a.rtype() => {
                        matches!(&result, Ok(v) if RV::from_ev(v).bits_eq(&RV::Empty))
                            && x_after.as_ref().map(|x| x.bits_eq(r)).unwrap_or(false)
                    },
                    ROut::Val(_) => {
                        matches!(&result, Err(e) if classify_error(e) == Some(ErrClass::Type))
                            && x_after.as_ref().map(|x| x.bits_eq(a)).unwrap_or(false)
                    },
                    ROut::Err(cl) => {
                        matches!(&result, Err(e) if classify_error(e).as_ref() == Some(cl))
                            && x_after.as_ref().map(|x| x.bits_eq(a)).unwrap_or(false)
                    },
                }
            };
            let good = ok_for(&exp.primary) || exp.alt.as_ref().map(ok_for).unwrap_or(false);
            let y_ok = c.get_value("y").map(|y| RV::from_ev(y).bits_eq(b)).unwrap_or(false);
            st.count(&format!(
                "op-assign/{}",
                match &result {
                    Ok(_) => "stored".to_string(),
                    Err(e) => format!("refused-{:?}", classify_error(e)),
                }
            ));
            if matches!(&exp.primary, ROut::Val(r) if r.rtype() == a.rtype()) {
                st.distinct("nontrivial", &(route as u8, op, a.key(), b.key()));
            }
            if !good || !y_ok {
                st.violation(Violation {
                    property: ID,
                    kind: "wrong-op-assign".into(),
                    input: case,
                    expected: format!("x = x {} y where x {} y is {}", op.sym(), op.sym(), expect_describe(&exp)),
                    actual: format!(
                        "result {}, x afterwards {:?}, y intact {}",
                        res_dbg(&result),
                        x_after.map(|x| x.key()),
                        y_ok
                    ),
                    test: test_for(route, &src, a, b, &exp, Some(a)),
                });
            }
        },
    }
}

fn run_un(lit: bool, op: UnOp, a: &RV, st: &mut Stats) {
    let exp = unop(op, a);
    let src;
    let result = if lit {
        let la = match a.literal() {
            Some(l) => l,
            None => return,
        };
        src = format!("{}{}", op.sym(), la);
        guarded(|| eval(&src))
    } else {
        src = format!("{}x", op.sym());
        let c = ctx_with(&[("x", a)]);
        guarded(|| evalexpr::eval_with_context(&src, &c))
    };
    st.evaluations += 1;
    let case = json!({"route": if lit {"unary-literal"} else {"unary-var"}, "op": op.sym(), "a": a.to_json()});
    let body = format!(
        "{}    let r = eval_with_context({:?}, &c);\n    {}\n",
        if lit { ctx_src(&[]) } else { ctx_src(&[("x", a)]) },
        src,
        expect_assert_src(&exp)
    );
    match result {
        Err(p) => st.violation(Violation {
            property: ID,
            kind: "panic".into(),
            input: case,
            expected: expect_describe(&exp),
            actual: format!("panic at {}: {}", p.location, p.message),
            test: test_wrap("c03_replay", &body),
        }),
        Ok(result) => {
            st.count(&format!("outcome/{}", outcome_class(&result)));
            if !matches!(exp.primary, ROut::Err(ErrClass::Type)) {
                st.distinct("nontrivial", &(lit, op, a.key()));
            }
            if !accepts(&exp, &result) {
                st.violation(Violation {
                    property: ID,
                    kind: "wrong-result".into(),
                    input: case,
                    expected: expect_describe(&exp),
                    actual: res_dbg(&result),
                    test: test_wrap("c03_replay", &body),
                });
            }
        },
    }
}

fn test_for(route: Route, src: &str, a: &RV, b: &RV, exp: &Expect, _x0: Option<&RV>) -> String {
    let body = match route {
        Route::Vars => format!(
            "{}    let r = eval_with_context({:?}, &c);\n    // reference: {}\n    {}\n",
            ctx_src(&[("x", a), ("y", b)]),
            src,
            expect_describe(exp),
            expect_assert_src(exp)
        ),
        Route::Lits => format!(
            "    let r = eval({:?});\n    // reference: {}\n    {}\n",
            src,
            expect_describe(exp),
            expect_assert_src(exp)
        ),
        Route::OpAssign => format!(
            "{}    let r = eval_with_context_mut({:?}, &mut c);\n    // reference: x = x op y, where x op y is {}; a result of another type than x is a type error and leaves x unchanged\n    panic!(\"result {{:?}}, x = {{:?}}\", r, c.get_value(\"x\"));\n",
            ctx_src(&[("x", a), ("y", b)]),
            src,
            expect_describe(exp)
        ),
    };
    test_wrap("c03_replay", &body)
}

pub fn run(cfg: &Cfg) -> Report {
    let pool = if cfg.tier == Tier::Thorough { big_pool() } else { pool() };
    let n = pool.len();
    // every tree is precompiled once as a sanity check that the sources are well-formed
    for op in BINOPS {
        build_operator_tree::<evalexpr::DefaultNumericTypes>(&format!("x {} y", op.sym()))
            .unwrap_or_else(|e| machinery_error(&format!("C03 source does not precompile: {e}")));
    }
    let mut stats = par_chunks(n as u64, 1, |r| {
        let mut st = Stats::new();
        for i in r {
            let a = &pool[i as usize];
            for b in &pool {
                for op in BINOPS {
                    run_bin(Route::Vars, op, a, b, &mut st);
                    run_bin(Route::Lits, op, a, b, &mut st);
                }
                for op in ASSIGN_BINOPS {
                    run_bin(Route::OpAssign, op, a, b, &mut st);
                }
            }
            for op in UNOPS {
                run_un(false, op, a, &mut st);
                run_un(true, op, a, &mut st);
            }
        }
        st
    });
    stats.states = 0;
    stats.sample(json!({"route": "vars", "source": "x % y", "x": RV::Int(i64::MIN).to_json(), "y": RV::Int(-1).to_json(),
        "reference": expect_describe(&binop(BinOp::Mod, &RV::Int(i64::MIN), &RV::Int(-1)))}));
    stats.sample(json!({"route": "literals", "source": "9223372036854775807 + 1", "reference": expect_describe(&binop(BinOp::Add, &RV::Int(i64::MAX), &RV::Int(1)))}));
    stats.sample(json!({"route": "op-assign", "source": "x ^= y", "x": RV::Int(2).to_json(), "y": RV::Int(2).to_json(), "reference": "type error (Float result into Int variable), x unchanged"}));
    stats.sample(json!({"route": "vars", "source": "x < y", "x": RV::Int((1 << 53) + 1).to_json(), "y": RV::Float(9007199254740992.0).to_json(),
        "reference": expect_describe(&binop(BinOp::Lt, &RV::Int((1 << 53) + 1), &RV::Float(9007199254740992.0)))}));
    let guards = vec![
        ("an arithmetic error was produced".to_string(), stats.get("outcome/err-Arith") > 0),
        ("a type error was produced".to_string(), stats.get("outcome/err-Type") > 0),
        ("int, float, bool and string results were produced".to_string(),
            stats.get("outcome/ok-Int") > 0 && stats.get("outcome/ok-Float") > 0 && stats.get("outcome/ok-Bool") > 0 && stats.get("outcome/ok-Str") > 0),
        ("an op-assign stored a value".to_string(), stats.get("op-assign/stored") > 0),
        ("an op-assign was refused with a type error".to_string(), stats.get("op-assign/refused-Some(Type)") > 0),
        ("an op-assign was refused with an arithmetic error".to_string(), stats.get("op-assign/refused-Some(Arith)") > 0),
    ];
    Report {
        property: ID,
        level: "exploration",
        rule: format!("complete matrix: 14 binary operators x pool^2 (pool = {n} edge values of all six types) through three routes (operands bound as variables; rendered as literals where a literal form exists; the 8 op-assign operators `x op= y`), plus 2 prefix operators x pool; a case is non-trivial when the reference outcome is not a type error (for op-assign: when the assignment is stored); distinct by (route, operator, operand values)"),
        nontrivial_set: "nontrivial",
        exhaustive: true,
        bound_completed: format!("pool of {n} values, all pairs, all operators"),
        assumptions: vec![
            "reference operator table (i128 / f64) in mc/src/refmodel/ops.rs is the specification".into(),
            "accepted both ways: i64::MIN % -1 (0 or arithmetic error); ordering of an int/float pair where exact and converted comparison differ; ==/!= where IEEE and bitwise equality differ (NaN, signed zero)".into(),
            "value space is covered by an edge pool, not entirely".into(),
            "profile semantics (overflow-checks) apply to the evalexpr dependency as to the harness crate".into(),
        ],
        stats,
        guards,
        extra: json!({"pool_size": n}),
    }
}

pub fn replay(case: &J) -> i32 {
    let input = &case["input"];
    let route = input["route"].as_str().unwrap_or("");
    let a = RV::from_json(&input["a"]);
    let b = RV::from_json(&input["b"]);
    let opsym = input["op"].as_str().unwrap_or("");
    let mut st = Stats::new();
    if route.starts_with("unary") {
        let op = UNOPS.iter().find(|o| o.sym() == opsym);
        match (op, a) {
            (Some(op), Some(a)) => run_un(route == "unary-literal", *op, &a, &mut st),
            _ => machinery_error("C03 replay: bad case"),
        }
    } else {
        let op = BINOPS.iter().find(|o| o.sym() == opsym);
        let r = match route {
            "vars" => Route::Vars,
            "literals" => Route::Lits,
            "op-assign" => Route::OpAssign,
            _ => machinery_error("C03 replay: bad route"),
        };
        match (op, a, b) {
            (Some(op), Some(a), Some(b)) => run_bin(r, *op, &a, &b, &mut st),
            _ => machinery_error("C03 replay: bad case"),
        }
    }
    super::replay_verdict(ID, &st)
}
