//! C14 — identifier iterators describe exactly the identifiers of the expression.

use super::common::*;
use crate::engine::*;
use crate::refmodel::ast::*;
use crate::refmodel::ops::{BinOp, UnOp};
use crate::refmodel::value::RV;
use evalexpr::{
    build_operator_tree, ContextWithMutableFunctions, ContextWithMutableVariables, EvalexprError, Function,
    Value,
};
use serde_json::{json, Value as J};

const ID: &str = "C14";

#[derive(Clone, Copy, Debug, PartialEq, Eq, Hash)]
enum Cls {
    Read,
    Write,
    Func,
}

fn occurrences(a: &Ast, out: &mut Vec<(String, Cls)>) {
    match a {
        Ast::Var(x) => out.push((x.clone(), Cls::Read)),
        Ast::Lit(_) | Ast::Unit => {},
        Ast::Bin(_, l, r) => {
            occurrences(l, out);
            occurrences(r, out);
        },
        Ast::Pre(_, e) | Ast::Partial(_, e) => occurrences(e, out),
        Ast::Asg(_, x, e) => {
            out.push((x.clone(), Cls::Write));
            occurrences(e, out);
        },
        Ast::Call(f, e) => {
            out.push((f.clone(), Cls::Func));
            occurrences(e, out);
        },
        Ast::Tuple(es) | Ast::Chain(es) => es.iter().for_each(|e| occurrences(e, out)),
    }
}

fn names(occ: &[(String, Cls)], keep: &[Cls]) -> Vec<String> {
    occ.iter().filter(|(_, c)| keep.contains(c)).map(|(n, _)| n.clone()).collect()
}

/// The context used for the renaming oracle: variables bound to distinct ints (the last variable name
/// of the expression stays unbound), functions that are distinguishable by their result.
fn base_context(vars: &[String], funcs: &[String], unbound: Option<&String>) -> HCtx {
    let mut c = HCtx::new();
    for (i, v) in vars.iter().enumerate() {
        if Some(v) == unbound {
            continue;
        }
        c.set_value(v.clone(), Value::Int(i as i64 + 2)).unwrap();
    }
    for (i, f) in funcs.iter().enumerate() {
        let k = i as i64 + 1;
        c.set_function(
            f.clone(),
            Function::new(move |a: &Value<evalexpr::DefaultNumericTypes>| {
                Ok(match a {
                    Value::Int(x) => Value::Int(i64::wrapping_add(i64::wrapping_mul(*x, 2), k)),
                    Value::Tuple(t) => Value::Int(t.len() as i64 * 100 + k),
                    other => other.clone(),
                })
            }),
        )
        .unwrap();
    }
    c
}

fn rename_str(s: &str, a: &str, b: &str) -> String {
    if s == a {
        b.to_string()
    } else if s == b {
        a.to_string()
    } else {
        s.to_string()
    }
}

fn rename_err(e: &EErr, a: &str, b: &str, vars: bool) -> EErr {
    match e {
        EvalexprError::VariableIdentifierNotFound(n) if vars => EvalexprError::VariableIdentifierNotFound(rename_str(n, a, b)),
        EvalexprError::FunctionIdentifierNotFound(n) if !vars => EvalexprError::FunctionIdentifierNotFound(rename_str(n, a, b)),
        other => other.clone(),
    }
}

fn check_ast(ast: &Ast, st: &mut Stats) {
    let want = ast_to_nt(ast);
    let src = join_spaced(&Renderer::render(ast, Parens::Minimal).out);
    st.evaluations += 1;
    let mut occ = Vec::new();
    occurrences(ast, &mut occ);
    let mk = |kind: &str, expected: String, actual: String| Violation {
        property: ID,
        kind: kind.into(),
        input: json!({"source": src, "ast": want.show()}),
        expected,
        actual,
        test: test_wrap(
            "c14_replay",
            &format!(
                "    let tree = build_operator_tree::<DefaultNumericTypes>({:?}).unwrap();\n    // identifier occurrences in source order with their class: {:?}\n    panic!(\"{{:?}} / read {{:?}} / write {{:?}} / fn {{:?}}\", tree.iter_identifiers().collect::<Vec<_>>(), tree.iter_read_variable_identifiers().collect::<Vec<_>>(), tree.iter_write_variable_identifiers().collect::<Vec<_>>(), tree.iter_function_identifiers().collect::<Vec<_>>());\n",
                src, occ
            ),
        ),
    };
    // 0. layout variants (small ASTs): the same tokens separated by each white-space character there is, by
    // an inline comment and by a line comment still list the same identifiers with the same classes — a name
    // that picks up a neighbouring character, or two names that merge, is a wrong list whatever the tree
    // (admissible only where the reference lexer reads the same tokens as from the spaced rendering)
    if ast.size() <= 2 && !occ.is_empty() {
        let toks = Renderer::render(ast, Parens::Minimal).out;
        let mut seps: Vec<String> = (0u32..=0x3000).filter_map(char::from_u32).filter(|c| c.is_whitespace()).map(|c| c.to_string()).collect();
        seps.push("/**/".into());
        seps.push(" //c\n".into());
        for sep in &seps {
            let s2 = toks.iter().map(|t| t.text()).collect::<Vec<_>>().join(sep);
            match (crate::refmodel::lexer::lex(&s2), crate::refmodel::lexer::lex(&src)) {
                (Ok(a), Ok(b)) if crate::refmodel::lexer::same_tokens(&a, &b) => {},
                _ => continue,
            }
            let t = match guarded(|| build_operator_tree::<evalexpr::DefaultNumericTypes>(&s2)) {
                Ok(Ok(t)) => t,
                _ => continue,
            };
            st.evaluations += 1;
            st.count("layout-variants");
            let got: Result<Vec<(&str, Vec<String>)>, PanicInfo> = guarded(|| {
                vec![
                    ("iter_identifiers", t.iter_identifiers().map(String::from).collect()),
                    ("iter_variable_identifiers", t.iter_variable_identifiers().map(String::from).collect()),
                    ("iter_read_variable_identifiers", t.iter_read_variable_identifiers().map(String::from).collect()),
                    ("iter_write_variable_identifiers", t.iter_write_variable_identifiers().map(String::from).collect()),
                    ("iter_function_identifiers", t.iter_function_identifiers().map(String::from).collect()),
                ]
            });
            let keeps: [&[Cls]; 5] = [&[Cls::Read, Cls::Write, Cls::Func], &[Cls::Read, Cls::Write], &[Cls::Read], &[Cls::Write], &[Cls::Func]];
            let bad = match got {
                Ok(g) => g.iter().zip(keeps.iter()).find(|((_, l), k)| *l != names(&occ, k)).map(|((n, l), k)| (format!("{} yields {:?}", n, names(&occ, k)), format!("{:?}", l))),
                Err(p) => Some(("the identifier lists".to_string(), format!("panic at {}: {}", p.location, p.message))),
            };
            if let Some((expected, actual)) = bad {
                st.violation(Violation {
                    property: ID,
                    kind: "iterator-mismatch/layout-variant".into(),
                    input: json!({"source": s2, "spaced_source": src, "ast": want.show()}),
                    expected,
                    actual,
                    test: test_wrap(
                        "c14_replay",
                        &format!(
                            "    let tree = build_operator_tree::<DefaultNumericTypes>({:?}).unwrap();\n    // identifier occurrences in source order with their class: {:?}\n    panic!(\"{{:?}} / read {{:?}} / write {{:?}} / fn {{:?}}\", tree.iter_identifiers().collect::<Vec<_>>(), tree.iter_read_variable_identifiers().collect::<Vec<_>>(), tree.iter_write_variable_identifiers().collect::<Vec<_>>(), tree.iter_function_identifiers().collect::<Vec<_>>());\n",
                            s2, occ
                        ),
                    ),
                });
                return;
            }
        }
    }
    let tree = match guarded(|| build_operator_tree::<evalexpr::DefaultNumericTypes>(&src)) {
        Ok(Ok(t)) => t,
        // tree shape is C02's/C05's business; without the tree there is nothing to iterate
        _ => {
            st.count("skipped/does-not-precompile");
            return;
        },
    };
    if node_to_nt(&tree) != want {
        st.count("skipped/tree-differs-from-ast");
        return;
    }
    if occ.len() >= 2 {
        st.distinct("nontrivial", &want);
    }
    st.distinct("occurrence-patterns", &occ.iter().map(|o| o.1).collect::<Vec<_>>());

    // 1. the five immutable iterators and the five mutable ones
    let all = [Cls::Read, Cls::Write, Cls::Func];
    type ItFn = fn(&ENode) -> Vec<String>;
    type ItMutFn = fn(&mut ENode) -> Vec<String>;
    let its: [(&str, &[Cls], ItFn, ItMutFn); 5] = [
        ("iter_identifiers", &all, |t| t.iter_identifiers().map(String::from).collect(), |t| t.iter_identifiers_mut().map(|s| s.clone()).collect()),
        (
            "iter_variable_identifiers",
            &[Cls::Read, Cls::Write],
            |t| t.iter_variable_identifiers().map(String::from).collect(),
            |t| t.iter_variable_identifiers_mut().map(|s| s.clone()).collect(),
        ),
        (
            "iter_read_variable_identifiers",
            &[Cls::Read],
            |t| t.iter_read_variable_identifiers().map(String::from).collect(),
            |t| t.iter_read_variable_identifiers_mut().map(|s| s.clone()).collect(),
        ),
        (
            "iter_write_variable_identifiers",
            &[Cls::Write],
            |t| t.iter_write_variable_identifiers().map(String::from).collect(),
            |t| t.iter_write_variable_identifiers_mut().map(|s| s.clone()).collect(),
        ),
        (
            "iter_function_identifiers",
            &[Cls::Func],
            |t| t.iter_function_identifiers().map(String::from).collect(),
            |t| t.iter_function_identifiers_mut().map(|s| s.clone()).collect(),
        ),
    ];
    for (name, keep, f, fm) in its {
        let expect = names(&occ, keep);
        let got = guarded(|| f(&tree));
        let mut t2 = tree.clone();
        let got_mut = guarded(|| fm(&mut t2));
        st.evaluations += 2;
        match (got, got_mut) {
            (Ok(g), Ok(gm)) => {
                if g != expect {
                    st.violation(mk("iterator-mismatch", format!("{} yields {:?}", name, expect), format!("{:?}", g)));
                    return;
                }
                if gm != expect {
                    st.violation(mk("mut-iterator-mismatch", format!("{}_mut visits {:?}", name, expect), format!("{:?}", gm)));
                    return;
                }
                if t2 != tree {
                    st.violation(mk("mut-iterator-changed-tree", "reading through the mutable iterator leaves the tree unchanged".into(), format!("{:?}", t2)));
                    return;
                }
            },
            (Err(p), _) | (_, Err(p)) => {
                st.violation(mk("panic", format!("{} yields {:?}", name, expect), format!("panic at {}: {}", p.location, p.message)));
                return;
            },
        }
    }

    // 1a. a copy of the tree lists the same identifiers with the same classes: `clone()`, and `clone_from`
    // into trees that held other expressions with identifiers of other classes at the same places (round 12)
    {
        let mut copies: Vec<(String, ENode)> = vec![("a clone of the tree".into(), tree.clone())];
        for used in ["a = 1", "f ( x )", "x + y", "( a , b = 2 ; c )", "1", "g ( a = f ( b ) , c )"] {
            if let Ok(mut t3) = build_operator_tree::<evalexpr::DefaultNumericTypes>(used) {
                t3.clone_from(&tree);
                copies.push((format!("the tree of `{}` overwritten by clone_from", used), t3));
            }
        }
        for (label, t3) in &copies {
            for (name, keep, f, _) in its {
                let expect = names(&occ, keep);
                st.evaluations += 1;
                match guarded(|| f(t3)) {
                    Ok(g) if g == expect => {},
                    Ok(g) => {
                        st.violation(mk("iterator-mismatch/copied-tree", format!("{} yields {:?}", name, expect), format!("{:?} on {}", g, label)));
                        return;
                    },
                    Err(p) => {
                        st.violation(mk("panic", format!("{} yields {:?}", name, expect), format!("{}: panic at {}: {}", label, p.location, p.message)));
                        return;
                    },
                }
            }
            if node_to_nt(t3) != want {
                st.violation(mk("iterator-mismatch/copied-tree", want.show(), format!("{} is {}", label, node_to_nt(t3).show())));
                return;
            }
        }
        st.count("copied-trees-compared");
    }

    // 1b. every way of consuming an iterator agrees with next(): after k calls of next(), the rest
    // obtained through fold / for_each / last / count / nth is the matching suffix
    {
        let expect = names(&occ, &all);
        let n = expect.len();
        for k in 0..=n.min(3) {
            let r = guarded(|| {
                let mut problems: Vec<String> = Vec::new();
                let mut it = tree.iter_identifiers();
                for _ in 0..k {
                    it.next();
                }
                let mut folded: Vec<String> = Vec::new();
                it.for_each(|s| folded.push(s.to_string()));
                if folded != expect[k.min(n)..] {
                    problems.push(format!("after {} next(): for_each yields {:?}, expected {:?}", k, folded, &expect[k.min(n)..]));
                }
                let mut it = tree.iter_identifiers();
                for _ in 0..k {
                    it.next();
                }
                let last = it.last().map(String::from);
                let want_last = if k < n { expect.last().cloned() } else { None };
                if last != want_last {
                    problems.push(format!("after {} next(): last() is {:?}, expected {:?}", k, last, want_last));
                }
                let mut it = tree.iter_variable_identifiers();
                for _ in 0..k {
                    it.next();
                }
                let vexp = names(&occ, &[Cls::Read, Cls::Write]);
                let cnt = it.count();
                if cnt != vexp.len().saturating_sub(k) {
                    problems.push(format!("iter_variable_identifiers after {} next(): count() is {}, expected {}", k, cnt, vexp.len().saturating_sub(k)));
                }
                let got_nth = tree.iter_identifiers().nth(k).map(String::from);
                if got_nth != expect.get(k).cloned() {
                    problems.push(format!("nth({}) is {:?}, expected {:?}", k, got_nth, expect.get(k)));
                }
                let node_count = tree.iter().count();
                let mut it = tree.iter();
                let mut c2 = 0;
                while it.next().is_some() {
                    c2 += 1;
                }
                if node_count != c2 {
                    problems.push(format!("Node::iter().count() is {}, stepping with next() gives {}", node_count, c2));
                }
                problems
            });
            st.evaluations += 5;
            match r {
                Err(p) => {
                    st.violation(mk("panic", "iterator adaptors return".into(), format!("panic at {}: {}", p.location, p.message)));
                    return;
                },
                Ok(problems) => {
                    if let Some(p) = problems.first() {
                        st.violation(mk("iterator-consumption-disagrees-with-next", format!("identifiers {:?}", expect), p.clone()));
                        return;
                    }
                },
            }
        }
        st.count("iterator-protocol-checks");
    }

    // 2. an unknown-identifier error names a listed identifier
    let empty = HCtx::new();
    if let Ok(Err(e)) = guarded(|| tree.eval_with_context(&empty)) {
        st.evaluations += 1;
        match &e {
            EvalexprError::VariableIdentifierNotFound(n) => {
                st.count("unknown-variable-errors");
                if !names(&occ, &[Cls::Read, Cls::Write]).contains(n) {
                    st.violation(mk("unknown-variable-not-listed", "error names a listed variable".into(), format!("{:?}", e)));
                    return;
                }
            },
            EvalexprError::FunctionIdentifierNotFound(n) => {
                st.count("unknown-function-errors");
                if !names(&occ, &[Cls::Func]).contains(n) {
                    st.violation(mk("unknown-function-not-listed", "error names a listed function".into(), format!("{:?}", e)));
                    return;
                }
            },
            _ => {},
        }
    }

    // 2b. the same with names of other shapes (namespaces, dots, underscores), written through the mutable
    // iterators: functions unknown while every variable is bound, then variables unknown while every
    // function is defined; the error must carry exactly a name the iterators list
    {
        let mut vn: Vec<String> = Vec::new();
        for n in names(&occ, &[Cls::Read, Cls::Write]) {
            if !vn.contains(&n) {
                vn.push(n);
            }
        }
        let mut fnn: Vec<String> = Vec::new();
        for n in names(&occ, &[Cls::Func]) {
            if !fnn.contains(&n) {
                fnn.push(n);
            }
        }
        for shape in ["math::u{}", "str::u{}", "ns::deep::u{}", "u{}.x", "_u{}", "u{}::", "Up{}X", "MATH::U{}", "ü{}ß", "_{}", "{}_", "_{}_0", "e{}", "{}e", "x{}#", "$_{}"] {
            let shaped = |i: usize| shape.replace("{}", &i.to_string());
            for functions in [true, false] {
                let pool = if functions { &fnn } else { &vn };
                if pool.is_empty() {
                    continue;
                }
                let mut t = tree.clone();
                if functions {
                    for id in t.iter_function_identifiers_mut() {
                        if let Some(i) = pool.iter().position(|p| p == id) {
                            *id = shaped(i);
                        }
                    }
                } else {
                    for id in t.iter_variable_identifiers_mut() {
                        if let Some(i) = pool.iter().position(|p| p == id) {
                            *id = shaped(i);
                        }
                    }
                }
                let ctx = if functions { base_context(&vn, &[], None) } else { base_context(&[], &fnn, None) };
                let listed: Vec<String> = (0..pool.len()).map(shaped).collect();
                for builtins_disabled in [false, true] {
                let mut c = ctx.clone();
                if builtins_disabled {
                    use evalexpr::Context;
                    c.set_builtin_functions_disabled(true).unwrap();
                }
                match guarded(|| t.eval_with_context_mut(&mut c)) {
                    Err(p) => {
                        st.violation(mk("panic", "evaluation returns".into(), format!("panic at {}: {}", p.location, p.message)));
                        return;
                    },
                    Ok(r) => {
                        st.evaluations += 1;
                        st.count("shaped-name-evaluations");
                        let bad = match &r {
                            Err(EvalexprError::FunctionIdentifierNotFound(n)) => !functions || !listed.contains(n),
                            Err(EvalexprError::VariableIdentifierNotFound(n)) => functions || !listed.contains(n),
                            _ => false,
                        };
                        if bad {
                            st.violation(Violation {
                                input: json!({"source": src, "ast": want.show(), "renamed": if functions {"functions"} else {"variables"}, "to": listed, "builtins_disabled": builtins_disabled}),
                                ..mk("unknown-identifier-not-listed", format!("an unknown-identifier error names one of {:?}", listed), format!("{:?}", r))
                            });
                            return;
                        }
                    },
                }
                }
            }
        }
    }

    // 3. renaming invariance: swap two names through the mutable iterators and in the context
    let mut var_names: Vec<String> = Vec::new();
    for n in names(&occ, &[Cls::Read, Cls::Write]) {
        if !var_names.contains(&n) {
            var_names.push(n);
        }
    }
    let mut fn_names: Vec<String> = Vec::new();
    for n in names(&occ, &[Cls::Func]) {
        if !fn_names.contains(&n) {
            fn_names.push(n);
        }
    }
    let reads = names(&occ, &[Cls::Read]);
    let unbound = reads.last().cloned();
    for unbound in [None, unbound.as_ref()] {
        let base = base_context(&var_names, &fn_names, unbound);
        let mut c0 = base.clone();
        let r0 = match guarded(|| tree.eval_with_context_mut(&mut c0)) {
            Ok(r) => r,
            Err(p) => {
                st.violation(mk("panic", "evaluation returns".into(), format!("panic at {}: {}", p.location, p.message)));
                return;
            },
        };
        st.evaluations += 1;
        st.count(if r0.is_ok() { "renaming/base-ok" } else { "renaming/base-err" });
        for vars in [true, false] {
            let pool = if vars { &var_names } else { &fn_names };
            let mut cands: Vec<(String, String)> = Vec::new();
            for i in 0..pool.len() {
                for j in i + 1..pool.len() {
                    cands.push((pool[i].clone(), pool[j].clone()));
                }
                // and a fresh name that does not occur in the expression
                cands.push((pool[i].clone(), "fresh_name".to_string()));
                // and a name that is in use in the *other* namespace (variables and functions are
                // separate: a variable may be called like a function of the context and vice versa)
                let other = if vars { &fn_names } else { &var_names };
                for o in other.iter() {
                    if !pool.contains(o) {
                        cands.push((pool[i].clone(), o.clone()));
                    }
                }
            }
            // for expressions with many names, a spread of pairs instead of all of them
            if cands.len() > 60 {
                let step = cands.len() / 40;
                cands = cands.into_iter().step_by(step.max(1)).collect();
            }
            for (a, b) in cands {
                let mut t = tree.clone();
                if vars {
                    for id in t.iter_variable_identifiers_mut() {
                        *id = rename_str(id, &a, &b);
                    }
                } else {
                    for id in t.iter_function_identifiers_mut() {
                        *id = rename_str(id, &a, &b);
                    }
                }
                // renamed context
                let rn = |n: &String| rename_str(n, &a, &b);
                let (vn, fnn): (Vec<String>, Vec<String>) = if vars {
                    (var_names.iter().map(rn).collect(), fn_names.clone())
                } else {
                    (var_names.clone(), fn_names.iter().map(rn).collect())
                };
                let unb = unbound.map(|u| if vars { rename_str(u, &a, &b) } else { u.clone() });
                let mut c1 = base_context(&vn, &fnn, unb.as_ref());
                let r1 = guarded(|| t.eval_with_context_mut(&mut c1));
                st.evaluations += 1;
                st.count("renaming/swaps");
                let expect_r: ERes = match &r0 {
                    Ok(v) => Ok(v.clone()),
                    Err(e) => Err(rename_err(e, &a, &b, vars)),
                };
                let expect_vars: Vec<(String, String)> = {
                    let mut v: Vec<(String, String)> = observe_vars(&c0)
                        .into_iter()
                        .map(|(n, val)| (if vars { rename_str(&n, &a, &b) } else { n }, val))
                        .collect();
                    v.sort();
                    v
                };
                match r1 {
                    Err(p) => {
                        st.violation(mk("panic", "evaluation returns".into(), format!("panic at {}: {}", p.location, p.message)));
                        return;
                    },
                    Ok(r1) => {
                        if res_key(&r1) != res_key(&expect_r) || observe_vars(&c1) != expect_vars {
                            st.violation(Violation {
                                input: json!({"source": src, "ast": want.show(), "swap": [a, b], "namespace": if vars {"variables"} else {"functions"}}),
                                ..mk(
                                    "renaming-changes-result",
                                    format!("{} with variables {:?}", res_key(&expect_r), expect_vars),
                                    format!("{} with variables {:?}", res_key(&r1), observe_vars(&c1)),
                                )
                            });
                            return;
                        }
                    },
                }
            }
        }
    }
    let _ = RV::Empty;
}

/// Sequence-shaped ASTs (C05's domain) with identifiers in every position.
fn sequence_asts(max_seps: usize) -> Vec<Ast> {
    let v = || Ast::Var(String::new());
    let elems: Vec<Ast> = vec![
        Ast::Unit,
        v(),
        Ast::Asg(None, String::new(), Box::new(v())),
        Ast::Asg(Some(BinOp::Add), String::new(), Box::new(v())),
        Ast::Call(String::new(), Box::new(v())),
        Ast::Call(String::new(), Box::new(Ast::Unit)),
        Ast::Call(String::new(), Box::new(Ast::Tuple(vec![v(), v()]))),
        Ast::Bin(BinOp::Add, Box::new(v()), Box::new(Ast::Call(String::new(), Box::new(v())))),
        Ast::Pre(UnOp::Neg, Box::new(v())),
        Ast::Tuple(vec![v(), Ast::Chain(vec![v(), v()])]),
        Ast::Chain(vec![Ast::Tuple(vec![v(), v()]), Ast::Unit]),
        // assignments of string literals that spell names the expression uses (targets p, q; variables x, y)
        Ast::Asg(None, String::new(), Box::new(Ast::Lit(RV::Str("p".into())))),
        Ast::Asg(None, String::new(), Box::new(Ast::Lit(RV::Str("x".into())))),
    ];
    let mut out = Vec::new();
    for n in 1..=max_seps {
        let k = elems.len();
        for mask in 0..(1u32 << n) {
            let total = (k as u64).pow(n as u32 + 1);
            for code in 0..total {
                let mut c = code;
                let mut chain: Vec<Ast> = Vec::new();
                let mut tuple: Vec<Ast> = Vec::new();
                for i in 0..=n {
                    tuple.push(elems[(c % k as u64) as usize].clone());
                    c /= k as u64;
                    let sep_is_chain = i < n && (mask >> i) & 1 == 1;
                    if i == n || sep_is_chain {
                        let t = std::mem::take(&mut tuple);
                        chain.push(if t.len() == 1 { t.into_iter().next().unwrap() } else { Ast::Tuple(t) });
                    }
                }
                let mut a = if chain.len() == 1 { chain.into_iter().next().unwrap() } else { Ast::Chain(chain) };
                name_leaves(&mut a, None);
                out.push(a);
            }
        }
    }
    // every separator skeleton of up to max_seps + 3 separators over three plain element shapes (a variable,
    // an assignment, a call), so that every local pattern of separators is seen with identifiers around it
    let plain: Vec<Ast> = vec![v(), Ast::Asg(None, String::new(), Box::new(v())), Ast::Call(String::new(), Box::new(v()))];
    for n in (max_seps + 1)..=(max_seps + 3) {
        for mask in 0..(1u32 << n) {
            for shift in 0..plain.len() {
                let mut chain: Vec<Ast> = Vec::new();
                let mut tuple: Vec<Ast> = Vec::new();
                for i in 0..=n {
                    tuple.push(plain[(i + shift) % plain.len()].clone());
                    let sep_is_chain = i < n && (mask >> i) & 1 == 1;
                    if i == n || sep_is_chain {
                        let t = std::mem::take(&mut tuple);
                        chain.push(if t.len() == 1 { t.into_iter().next().unwrap() } else { Ast::Tuple(t) });
                    }
                }
                let mut a = if chain.len() == 1 { chain.into_iter().next().unwrap() } else { Ast::Chain(chain) };
                name_leaves(&mut a, None);
                out.push(a);
            }
        }
    }
    out
}

/// Long expressions with many identifiers: sums, tuples, assignment chains, nested calls.
fn scaling(thorough: bool) -> Stats {
    use super::scale::*;
    super::on_big_stack(move || {
        let mut st = Stats::new();
        for n in sizes(thorough) {
            let vars: Vec<Ast> = (0..=n).map(var).collect();
            let mut asts = vec![
                left_chain(BinOp::Add, n),
                right_nested(BinOp::Mul, n),
                Ast::Tuple(vars.clone()),
                Ast::Call("f".into(), Box::new(Ast::Tuple(vars.clone()))),
                call_chain(n),
                assign_chain(n),
                prefix_chain(n),
            ];
            if n >= 2 {
                // p0 = v0; p1 = v1 + p0; ...
                let chain: Vec<Ast> = (0..n)
                    .map(|i| Ast::Asg(if i % 3 == 2 { Some(BinOp::Add) } else { None }, format!("p{}", i % 4), Box::new(if i == 0 { var(0) } else { Ast::Bin(BinOp::Add, Box::new(var(i)), Box::new(Ast::Var(format!("p{}", (i - 1) % 4)))) })))
                    .collect();
                asts.push(Ast::Chain(chain));
            }
            for a in asts {
                check_ast(&a, &mut st);
                st.count("scaling-family-asts");
            }
        }
        st
    })
}

pub fn run(cfg: &Cfg) -> Report {
    let k = cfg.tier.pick(3, 4);
    let seq_n = cfg.tier.pick(2, 3);
    let alpha = Alphabet::full();
    let counts = shape_counts(&alpha, k);
    let mut stats = Stats::new();
    for n in 0..=k {
        let st = par_chunks(counts[n], 1024, |r| {
            let mut st = Stats::new();
            for idx in r {
                let mut a = unrank(&alpha, &counts, n, idx);
                name_leaves(&mut a, None);
                check_ast(&a, &mut st);
                st.count("asts");
            }
            st
        });
        stats.merge(st);
    }
    let seqs = sequence_asts(seq_n);
    let nseq = seqs.len();
    stats.merge(par_chunks(nseq as u64, 256, |r| {
        let mut st = Stats::new();
        for i in r {
            check_ast(&seqs[i as usize], &mut st);
            st.count("sequence-asts");
        }
        st
    }));
    stats.merge(scaling(cfg.tier == Tier::Thorough));
    for src in ["p = f (x + g y) ; q += z , h ()", "f g x", "- x ^ y"] {
        let t = build_operator_tree::<evalexpr::DefaultNumericTypes>(src).unwrap();
        stats.sample(json!({"source": src, "identifiers": t.iter_identifiers().collect::<Vec<_>>(), "read": t.iter_read_variable_identifiers().collect::<Vec<_>>(),
            "write": t.iter_write_variable_identifiers().collect::<Vec<_>>(), "function": t.iter_function_identifiers().collect::<Vec<_>>()}));
    }
    let guards = vec![
        ("renaming swaps were exercised on succeeding and failing evaluations".to_string(),
            stats.get("renaming/swaps") > 0 && stats.get("renaming/base-ok") > 0 && stats.get("renaming/base-err") > 0),
        ("unknown-variable and unknown-function errors were observed".to_string(),
            stats.get("unknown-variable-errors") > 0 && stats.get("unknown-function-errors") > 0),
        ("at least half of the ASTs were checked (the others were skipped because their tree differs from the AST, which C02/C05 report)".to_string(),
            2 * (stats.get("skipped/does-not-precompile") + stats.get("skipped/tree-differs-from-ast")) <= stats.get("asts") + stats.get("sequence-asts")),
    ];
    Report {
        property: ID,
        level: "exploration",
        rule: format!("every AST with <= {k} operator nodes over the full operator alphabet (identifiers in every leaf, assignment-target and function position, named in source order; the five iterators also on a clone of the tree and on six used trees overwritten by clone_from; ASTs with <= 2 operators also with their tokens separated by each of the 25 white-space characters, by an inline comment and by a line comment: same identifier lists) plus {nseq} sequence-shaped ASTs (`,`/`;` skeletons with <= {seq_n} separators over 13 element shapes incl. absent elements, `()`, nested sequences, and every skeleton of up to three more separators over plain variables, assignments and calls); per AST: 5 immutable + 5 mutable iterators against the occurrence list of the AST, every consumption style (for_each/fold, last, count, nth after 0..3 calls of next()) against next(), unknown-identifier errors against the lists (also after renaming all functions, or all variables, to names with namespaces, dots, underscores, upper-case and non-ASCII letters, digits and underscores only (`_0`, `0_`), a trailing `e`, `#`, `$`, with builtins enabled and disabled), and every swap of two variable names / two function names / a name with a fresh name / a name with a name in use in the other namespace applied through the mutable iterators and to the context. Plus scaling families (sums, products, tuples, call arguments, call chains, assignment chains, prefix chains, statement sequences with n identifiers for every n in 1..20 and up to 129 / 1..40 and up to 400). Non-trivial = at least two identifier occurrences; distinct by normalised tree"),
        nontrivial_set: "nontrivial",
        exhaustive: true,
        bound_completed: format!("AST size {k}; sequences with {seq_n} separators"),
        assumptions: vec![
            "occurrence list computed from the generating AST (source order = pre-order)".into(),
            "ASTs whose parsed tree differs from the AST are skipped here (counted in the evidence; none on the unchanged tree) and reported by C02/C05".into(),
        ],
        stats,
        guards,
        extra: json!({}),
    }
}

pub fn replay(case: &J) -> i32 {
    let src = case["input"]["spaced_source"].as_str().or(case["input"]["source"].as_str()).unwrap_or_else(|| machinery_error("C14 replay: no source"));
    // rebuild the AST by searching the enumeration for the same rendering (cheap at these sizes)
    let alpha = Alphabet::full();
    let counts = shape_counts(&alpha, 4);
    let mut st = Stats::new();
    let mut found = false;
    'outer: for n in 0..=4 {
        for idx in 0..counts[n] {
            let mut a = unrank(&alpha, &counts, n, idx);
            name_leaves(&mut a, None);
            if join_spaced(&Renderer::render(&a, Parens::Minimal).out) == src {
                check_ast(&a, &mut st);
                found = true;
                break 'outer;
            }
        }
    }
    if !found {
        for a in sequence_asts(3) {
            if join_spaced(&Renderer::render(&a, Parens::Minimal).out) == src {
                check_ast(&a, &mut st);
                found = true;
                break;
            }
        }
    }
    if !found {
        match build_operator_tree::<evalexpr::DefaultNumericTypes>(src).ok().and_then(|t| super::selftest::node_to_ast(&t)) {
            Some(ast) => check_ast(&ast, &mut st),
            None => machinery_error("C14 replay: source not in the enumerated domain"),
        }
    }
    super::replay_verdict(ID, &st)
}
