//! Helpers shared by the property modules.

use crate::refmodel::ops::{ErrClass, Expect, ROut};
use crate::refmodel::value::{RV, EV};
// No glob import: EvalexprInt/EvalexprFloat methods would shadow the inherent i64/f64 methods.
use evalexpr::{
    ContextWithMutableVariables, DefaultNumericTypes, EvalexprError, HashMapContext,
    IterateVariablesContext, Node,
};

pub type HCtx = HashMapContext<DefaultNumericTypes>;
pub type ENode = Node<DefaultNumericTypes>;
pub type EErr = EvalexprError<DefaultNumericTypes>;
pub type ERes = Result<EV, EErr>;

pub fn ctx_with(vars: &[(&str, &RV)]) -> HCtx {
    let mut c = HCtx::new();
    for (n, v) in vars {
        c.set_value((*n).to_string(), v.to_ev())
            .expect("fresh variable can be set to any value");
    }
    c
}

/// Sorted observation of all variables of a context (names with value keys).
pub fn observe_vars(c: &HCtx) -> Vec<(String, String)> {
    let mut v: Vec<(String, String)> = c
        .iter_variables()
        .map(|(n, v)| (n, RV::from_ev(&v).key()))
        .collect();
    v.sort();
    v
}

pub fn res_key(r: &ERes) -> String {
    match r {
        Ok(v) => format!("Ok({})", RV::from_ev(v).key()),
        Err(e) => format!("Err({:?})", e),
    }
}

/// Debug rendering with NaN-insensitive float payloads left as is (only used for messages).
pub fn res_dbg(r: &ERes) -> String {
    format!("{:?}", r)
}

const ARITH_PAT: &str = "EvalexprError::AdditionError { .. } | EvalexprError::SubtractionError { .. } | EvalexprError::NegationError { .. } | EvalexprError::MultiplicationError { .. } | EvalexprError::DivisionError { .. } | EvalexprError::ModulationError { .. }";
const TYPE_PAT: &str = "EvalexprError::ExpectedString { .. } | EvalexprError::ExpectedInt { .. } | EvalexprError::ExpectedFloat { .. } | EvalexprError::ExpectedNumber { .. } | EvalexprError::ExpectedNumberOrString { .. } | EvalexprError::ExpectedBoolean { .. } | EvalexprError::ExpectedTuple { .. } | EvalexprError::ExpectedFixedLengthTuple { .. } | EvalexprError::ExpectedRangedLengthTuple { .. } | EvalexprError::ExpectedEmpty { .. } | EvalexprError::TypeError { .. } | EvalexprError::WrongTypeCombination { .. }";

fn one_src(o: &ROut) -> String {
    match o {
        ROut::Val(v) => format!(
            "format!(\"{{:?}}\", r) == format!(\"{{:?}}\", Ok::<Value, EvalexprError>({}))",
            v.rust_src()
        ),
        ROut::Err(ErrClass::Arith) => format!("matches!(r, Err({}))", ARITH_PAT),
        ROut::Err(ErrClass::Type) => format!("matches!(r, Err({}))", TYPE_PAT),
    }
}

/// Rust source of an assertion that `r` satisfies the expectation.
pub fn expect_assert_src(e: &Expect) -> String {
    let mut s = one_src(&e.primary);
    if let Some(a) = &e.alt {
        s = format!("({}) || ({})", s, one_src(a));
    }
    format!("assert!({}, \"got {{:?}}\", r);", s)
}

pub fn expect_describe(e: &Expect) -> String {
    match &e.alt {
        None => e.primary.describe(),
        Some(a) => format!("{} (or {})", e.primary.describe(), a.describe()),
    }
}

/// Source text of a test that binds the given variables in a fresh HashMapContext.
pub fn ctx_src(vars: &[(&str, &RV)]) -> String {
    let mut s = String::from("    let mut c = HashMapContext::<DefaultNumericTypes>::new();\n");
    for (n, v) in vars {
        s.push_str(&format!(
            "    c.set_value({:?}.to_string(), {}).unwrap();\n",
            n,
            v.rust_src()
        ));
    }
    s
}

pub fn test_wrap(name: &str, body: &str) -> String {
    format!("#[test]\nfn {}() {{\n    use evalexpr::*;\n{}}}\n", name, body)
}

/// Several oracles compare results through the `Debug` rendering the crate derives for its own types. That
/// is sound only while the rendering tells values apart: for every pair of pool values it must differ
/// exactly when the values differ (checked by the harness's own bit-exact comparison), alone and as the
/// payload of an error. Used as a guard: a lossy rendering makes those comparisons unusable, which is a
/// machinery condition, not a verdict.
pub fn debug_renderings_tell_values_apart() -> bool {
    let pool = crate::refmodel::value::pool();
    let shown: Vec<(String, String)> = pool
        .iter()
        .map(|v| {
            let ev = v.to_ev();
            (format!("{:?}", ev), format!("{:?}", evalexpr::EvalexprError::<evalexpr::DefaultNumericTypes>::ExpectedEmpty { actual: ev }))
        })
        .collect();
    for i in 0..pool.len() {
        for j in 0..pool.len() {
            let same = pool[i].bits_eq(&pool[j]);
            if same != (shown[i].0 == shown[j].0) || same != (shown[i].1 == shown[j].1) {
                return false;
            }
        }
    }
    true
}
