//! C08 — strict left-to-right evaluation; the first error wins.
//! Programs × initial contexts on the real HashMapContext with recording functions, and programs ×
//! environment-answer scripts (deviation bounded) on a scripted Context; oracle: reference
//! interpreter (result, final context, ordered call log, ordered context interactions).

use super::common::*;
use super::progs;
use crate::engine::*;
use crate::refmodel::ast::*;
use crate::refmodel::interp::*;
use crate::refmodel::value::{RV, EV};
use evalexpr::{
    build_operator_tree, Context, ContextWithMutableFunctions, ContextWithMutableVariables, DefaultNumericTypes, EvalexprError,
    Function, Value,
};
use serde_json::{json, Value as J};
use std::cell::{Cell, RefCell};
use std::collections::{BTreeMap, HashMap};
use std::sync::{Arc, Mutex};

const ID: &str = "C08";

type Log = Arc<Mutex<Vec<(String, RV)>>>;

pub fn real_context(vars: &[(&'static str, RV)], log: &Log) -> HCtx {
    let mut c = HCtx::new();
    for (n, v) in vars {
        c.set_value(n.to_string(), v.to_ev()).unwrap();
    }
    for name in ["r", "s"] {
        let l = log.clone();
        c.set_function(
            name.into(),
            Function::new(move |a| {
                l.lock().unwrap().push((name.to_string(), RV::from_ev(a)));
                Ok(a.clone())
            }),
        )
        .unwrap();
    }
    let l = log.clone();
    c.set_function(
        "typeof".into(),
        Function::new(move |a| {
            l.lock().unwrap().push(("typeof".to_string(), RV::from_ev(a)));
            Err(EvalexprError::CustomMessage("boom".into()))
        }),
    )
    .unwrap();
    c
}

pub fn ref_context(vars: &[(&'static str, RV)]) -> RCtx {
    let mut rc = RCtx::new();
    for (n, v) in vars {
        rc.vars.insert(n.to_string(), v.clone());
    }
    rc.funcs.insert("r".into(), RFn::Identity);
    rc.funcs.insert("s".into(), RFn::Identity);
    rc.funcs.insert("typeof".into(), RFn::Fail("boom".into()));
    rc
}

pub fn source_of(ast: &Ast) -> String {
    join_spaced(&Renderer::render(ast, Parens::Minimal).out)
}

fn log_keys(l: &[(String, RV)]) -> Vec<String> {
    l.iter().map(|(n, v)| format!("{}({})", n, v.key())).collect()
}

fn ctx_test_src(vars: &[(&'static str, RV)], src: &str, expected: &str) -> String {
    let mut s = String::from("    use std::sync::{Arc, Mutex};\n    let log: Arc<Mutex<Vec<String>>> = Arc::new(Mutex::new(vec![]));\n    let mut c = HashMapContext::<DefaultNumericTypes>::new();\n");
    for (n, v) in vars {
        s.push_str(&format!("    c.set_value({:?}.into(), {}).unwrap();\n", n, v.rust_src()));
    }
    for f in ["r", "s"] {
        s.push_str(&format!("    let l = log.clone(); c.set_function({:?}.into(), Function::new(move |a| {{ l.lock().unwrap().push(format!(\"{}({{:?}})\", a)); Ok(a.clone()) }})).unwrap();\n", f, f));
    }
    s.push_str("    let l = log.clone(); c.set_function(\"typeof\".into(), Function::new(move |a| { l.lock().unwrap().push(format!(\"typeof({:?})\", a)); Err(EvalexprError::CustomMessage(\"boom\".into())) })).unwrap();\n");
    s.push_str(&format!("    let r = eval_with_context_mut({:?}, &mut c);\n    // reference: {}\n    panic!(\"{{:?}} / log {{:?}} / x = {{:?}} / y = {{:?}}\", r, log.lock().unwrap(), c.get_value(\"x\"), c.get_value(\"y\"));\n", src, expected));
    s
}

/// Axis 1: the real HashMapContext.
fn check_program(ast: &Ast, vars: &[(&'static str, RV)], ci: usize, st: &mut Stats) {
    let src = source_of(ast);
    let mut rc = ref_context(vars);
    let rref = rc.eval(ast, Mode::Mutable);
    let log: Log = Arc::new(Mutex::new(Vec::new()));
    let mut c = real_context(vars, &log);
    let real = guarded(|| evalexpr::eval_with_context_mut(&src, &mut c));
    st.evaluations += 1;
    let expected = format!(
        "{} / variables {:?} / call log {:?}",
        describe(&rref),
        rc.vars.iter().map(|(k, v)| (k.clone(), v.key())).collect::<Vec<_>>(),
        log_keys(&rc.log)
    );
    let mk = |kind: &str, actual: String| Violation {
        property: ID,
        kind: kind.into(),
        input: json!({"axis": "hashmap", "source": src, "context": ci}),
        expected: expected.clone(),
        actual,
        test: test_wrap("c08_replay", &ctx_test_src(vars, &src, &expected)),
    };
    let real = match real {
        Ok(r) => r,
        Err(p) => {
            st.violation(mk("panic", format!("panic at {}: {}", p.location, p.message)));
            return;
        },
    };
    if rc.unclaimed {
        st.count("unclaimed-programs");
        return;
    }
    st.count(if rref.is_ok() { "reference/ok" } else { "reference/err" });
    if rref.is_err() && (!rc.log.is_empty() || !rc.vars.is_empty()) {
        st.count("reference/err-after-effects");
        st.count("nontrivial-distinct");
    } else if rc.log.len() >= 2 {
        st.count("nontrivial-distinct");
    }
    st.distinct("outcomes", &(describe(&rref), log_keys(&rc.log)));
    let vars_ref: Vec<(String, String)> = rc.vars.iter().map(|(k, v)| (k.clone(), v.key())).collect();
    let vars_real = observe_vars(&c);
    let log_real = log_keys(&log.lock().unwrap());
    if !result_matches(&rref, &real) || vars_ref != vars_real || log_real != log_keys(&rc.log) {
        st.violation(mk(
            "order-or-effects-mismatch",
            format!("{} / variables {:?} / call log {:?}", res_dbg(&real), vars_real, log_real),
        ));
        return;
    }
    let tree = match guarded(|| build_operator_tree::<DefaultNumericTypes>(&src)) {
        Ok(Ok(t)) => t,
        _ => return,
    };
    // the same program through the shared-context walker: same order, same calls, stops at the first
    // failure (an assignment that is reached fails there)
    {
        let mut ri = ref_context(vars);
        let iref = ri.eval(ast, Mode::Immutable);
        let log_s: Log = Arc::new(Mutex::new(Vec::new()));
        let cs = real_context(vars, &log_s);
        match guarded(|| tree.eval_with_context(&cs)) {
            Err(p) => {
                st.violation(mk("panic", format!("shared context: panic at {}: {}", p.location, p.message)));
                return;
            },
            Ok(r) => {
                st.evaluations += 1;
                if !ri.unclaimed {
                    let ok = result_matches(&iref, &r)
                        || match (&ri.opassign_alt, &r) {
                            (Some(alt), Err(e)) => err_matches(alt, e),
                            _ => false,
                        };
                    let got_log = log_keys(&log_s.lock().unwrap());
                    if !ok || got_log != log_keys(&ri.log) {
                        st.violation(Violation {
                            property: ID,
                            kind: "shared-context-order-or-calls-mismatch".into(),
                            input: json!({"axis": "hashmap-shared", "source": src, "context": ci}),
                            expected: format!("eval_with_context: {} / call log {:?}", describe(&iref), log_keys(&ri.log)),
                            actual: format!("{} / call log {:?}", res_dbg(&r), got_log),
                            test: test_wrap("c08_replay", &ctx_test_src(vars, &src, &expected)),
                        });
                        return;
                    }
                    st.count("shared-context-runs");
                }
            },
        }
    }
    // a context that can be passed to the mutable entry points but has no variable storage (the trait's own
    // set_value): every assignment fails there with ContextNotMutable, and nothing after it runs
    {
        let mut rn = ref_context(vars);
        let nref = rn.eval(ast, Mode::NoStorage);
        let log_n: Log = Arc::new(Mutex::new(Vec::new()));
        let mut ns = super::c11::NoStore { inner: real_context(vars, &log_n) };
        match guarded(|| tree.eval_with_context_mut(&mut ns)) {
            Err(p) => {
                st.violation(mk("panic", format!("context without storage: panic at {}: {}", p.location, p.message)));
                return;
            },
            Ok(r) => {
                st.evaluations += 1;
                if !rn.unclaimed {
                    let got_log = log_keys(&log_n.lock().unwrap());
                    if !result_matches(&nref, &r) || got_log != log_keys(&rn.log) {
                        st.violation(Violation {
                            property: ID,
                            kind: "no-storage-context-order-or-calls-mismatch".into(),
                            input: json!({"axis": "hashmap-no-storage", "source": src, "context": ci}),
                            expected: format!("eval_with_context_mut on a context without variable storage: {} / call log {:?}", describe(&nref), log_keys(&rn.log)),
                            actual: format!("{} / call log {:?}", res_dbg(&r), got_log),
                            test: test_wrap("c08_replay", &ctx_test_src(vars, &src, &expected)),
                        });
                        return;
                    }
                    st.count("no-storage-context-runs");
                }
            },
        }
    }
    // the context-free tree-level forms (no user functions there: only for programs without calls, in the
    // context without variables): the result of evaluation in a fresh mutable context
    if ci == 0 && rc.log.is_empty() && !src.contains("typeof") && !src.contains("r (") && !src.contains("s (") {
        let fresh = {
            let mut c = HCtx::new();
            guarded(|| tree.eval_with_context_mut(&mut c)).ok()
        };
        if let Some(fresh) = fresh {
            macro_rules! context_free {
                ($name:literal, $m:ident, $proj:expr) => {{
                    let got = guarded(|| tree.$m()).map(|r| format!("{:?}", r));
                    let want: String = $proj(&fresh);
                    st.evaluations += 1;
                    match got {
                        Ok(g) if g == want => {},
                        Ok(g) => {
                            st.violation(mk(concat!("context-free-form-differs/", $name), format!("{}: {} (fresh mutable context gives {})", $name, g, want)));
                            return;
                        },
                        Err(p) => {
                            st.violation(mk("panic", format!("{}: panic at {}: {}", $name, p.location, p.message)));
                            return;
                        },
                    }
                }};
            }
            type ER = Result<EV, EErr>;
            context_free!("Node::eval", eval, |f: &ER| format!("{:?}", f));
            context_free!("Node::eval_int", eval_int, |f: &ER| format!("{:?}", f.clone().and_then(|v| match v { Value::Int(i) => Ok(i), o => Err(EvalexprError::ExpectedInt { actual: o }) })));
            context_free!("Node::eval_boolean", eval_boolean, |f: &ER| format!("{:?}", f.clone().and_then(|v| match v { Value::Boolean(b) => Ok(b), o => Err(EvalexprError::ExpectedBoolean { actual: o }) })));
            context_free!("Node::eval_empty", eval_empty, |f: &ER| format!("{:?}", f.clone().and_then(|v| match v { Value::Empty => Ok(()), o => Err(EvalexprError::ExpectedEmpty { actual: o }) })));
            context_free!("Node::eval_float", eval_float, |f: &ER| format!("{:?}", f.clone().and_then(|v| match v { Value::Float(x) => Ok(x), o => Err(EvalexprError::ExpectedFloat { actual: o }) })));
            context_free!("Node::eval_string", eval_string, |f: &ER| format!("{:?}", f.clone().and_then(|v| match v { Value::String(x) => Ok(x), o => Err(EvalexprError::ExpectedString { actual: o }) })));
            st.count("context-free-forms-checked");
        }
    }
    // every typed mutable view evaluates the program exactly once too: same final variables, same calls
    // (only observable for programs that have effects)
    let initial: Vec<(String, String)> = ref_context(vars).vars.iter().map(|(k, v)| (k.clone(), v.key())).collect();
    if rc.log.is_empty() && vars_ref == initial {
        return;
    }
    macro_rules! typed_once {
        ($name:literal, $m:ident) => {{
            let log_t: Log = Arc::new(Mutex::new(Vec::new()));
            let mut ct = real_context(vars, &log_t);
            match guarded(|| tree.$m(&mut ct).map(|_| ())) {
                Err(p) => {
                    st.violation(mk("panic", format!("{}: panic at {}: {}", $name, p.location, p.message)));
                    return;
                },
                Ok(_) => {
                    st.evaluations += 1;
                    let v = observe_vars(&ct);
                    let l = log_keys(&log_t.lock().unwrap());
                    if v != vars_real || l != log_real {
                        st.violation(mk(
                            concat!("typed-view-effects-differ/", $name),
                            format!("{}: variables {:?} / call log {:?}", $name, v, l),
                        ));
                        return;
                    }
                },
            }
        }};
    }
    typed_once!("eval_string_with_context_mut", eval_string_with_context_mut);
    typed_once!("eval_float_with_context_mut", eval_float_with_context_mut);
    typed_once!("eval_int_with_context_mut", eval_int_with_context_mut);
    typed_once!("eval_number_with_context_mut", eval_number_with_context_mut);
    typed_once!("eval_boolean_with_context_mut", eval_boolean_with_context_mut);
    typed_once!("eval_tuple_with_context_mut", eval_tuple_with_context_mut);
    typed_once!("eval_empty_with_context_mut", eval_empty_with_context_mut);
    st.count("typed-views-checked");
}

// ---------------------------------------------------------------------------------------------
// Axis 2: scripted context

struct ScriptedCtx {
    vars: HashMap<String, EV>,
    devs: BTreeMap<usize, u8>,
    counter: Cell<usize>,
    trace: RefCell<Vec<String>>,
    log: RefCell<Vec<(String, RV)>>,
    dev_true: EV,
    dev_int: EV,
}

impl ScriptedCtx {
    fn new(vars: &[(&'static str, RV)], devs: BTreeMap<usize, u8>) -> Self {
        ScriptedCtx {
            vars: vars.iter().map(|(n, v)| (n.to_string(), v.to_ev())).collect(),
            devs,
            counter: Cell::new(0),
            trace: RefCell::new(Vec::new()),
            log: RefCell::new(Vec::new()),
            dev_true: Value::Boolean(true),
            dev_int: Value::Int(7),
        }
    }
    fn next_dev(&self, what: String) -> u8 {
        let i = self.counter.get();
        self.counter.set(i + 1);
        let d = self.devs.get(&i).copied().unwrap_or(0);
        self.trace.borrow_mut().push(if d == 0 { what } else { format!("{} [deviation {}]", what, d) });
        d
    }
}

impl Context for ScriptedCtx {
    type NumericTypes = DefaultNumericTypes;
    fn get_value(&self, identifier: &str) -> Option<&EV> {
        let default = self.vars.get(identifier);
        match self.next_dev(format!("get_value({})", identifier)) {
            1 => None,
            2 => match default {
                Some(Value::Boolean(_)) => Some(&self.dev_int),
                _ => Some(&self.dev_true),
            },
            _ => default,
        }
    }
    fn call_function(&self, identifier: &str, argument: &EV) -> Result<EV, EErr> {
        let arg = RV::from_ev(argument);
        match self.next_dev(format!("call_function({}, {})", identifier, arg.key())) {
            1 => return Err(EvalexprError::CustomMessage("env".into())),
            2 => return Err(EvalexprError::FunctionIdentifierNotFound(identifier.to_string())),
            3 => return Ok(Value::Int(42)),
            _ => {},
        }
        match identifier {
            "r" | "s" => {
                self.log.borrow_mut().push((identifier.to_string(), arg));
                Ok(argument.clone())
            },
            "typeof" => {
                self.log.borrow_mut().push((identifier.to_string(), arg));
                Err(EvalexprError::CustomMessage("boom".into()))
            },
            _ => Err(EvalexprError::FunctionIdentifierNotFound(identifier.to_string())),
        }
    }
    fn are_builtin_functions_disabled(&self) -> bool {
        false
    }
    fn set_builtin_functions_disabled(&mut self, _disabled: bool) -> Result<(), EErr> {
        Ok(())
    }
}

impl ContextWithMutableVariables for ScriptedCtx {
    fn set_value(&mut self, identifier: String, value: EV) -> Result<(), EErr> {
        match self.next_dev(format!("set_value({}, {})", identifier, RV::from_ev(&value).key())) {
            1 => return Err(EvalexprError::CustomMessage("ro".into())),
            2 => return Ok(()),
            _ => {},
        }
        // same type-safety rule as the HashMapContext, so that the reference model applies unchanged
        if let Some(cur) = self.vars.get(&identifier) {
            if RV::from_ev(cur).rtype() != RV::from_ev(&value).rtype() {
                let cur = cur.clone();
                return Err(match cur {
                    Value::String(_) => EvalexprError::expected_string(value),
                    Value::Int(_) => EvalexprError::expected_int(value),
                    Value::Float(_) => EvalexprError::expected_float(value),
                    Value::Boolean(_) => EvalexprError::expected_boolean(value),
                    Value::Tuple(_) => EvalexprError::expected_tuple(value),
                    Value::Empty => EvalexprError::expected_empty(value),
                });
            }
        }
        self.vars.insert(identifier, value);
        Ok(())
    }
}

fn n_deviations(kind: &str) -> u8 {
    if kind.starts_with("get_value") {
        2
    } else if kind.starts_with("call_function") {
        3
    } else {
        2
    }
}

/// Runs program under one script on both sides and compares everything. Returns the reference trace.
fn run_scripted(ast: &Ast, tree: &ENode, src: &str, vars: &[(&'static str, RV)], ci: usize, devs: &BTreeMap<usize, u8>, st: &mut Stats) -> Vec<String> {
    let mut rc = ref_context(vars);
    rc.script = Some(Script {
        devs: devs.clone(),
        counter: 0,
        trace: vec![],
    });
    let rref = rc.eval(ast, Mode::Mutable);
    let script = rc.script.take().unwrap();
    let mut c = ScriptedCtx::new(vars, devs.clone());
    let real = guarded(|| tree.eval_with_context_mut(&mut c));
    st.evaluations += 1;
    st.transitions += 1;
    let expected = format!(
        "{} / variables {:?} / call log {:?} / context interactions {:?}",
        describe(&rref),
        rc.vars.iter().map(|(k, v)| (k.clone(), v.key())).collect::<Vec<_>>(),
        log_keys(&rc.log),
        script.trace
    );
    let mk = |kind: &str, actual: String| Violation {
        property: ID,
        kind: kind.into(),
        input: json!({"axis": "scripted", "source": src, "context": ci, "deviations": devs.iter().map(|(k, v)| json!([k, v])).collect::<Vec<_>>()}),
        expected: expected.clone(),
        actual,
        test: test_wrap(
            "c08_replay",
            &format!("    // evaluate {:?} with eval_with_context_mut on a Context whose answers follow the script {:?}\n    // (interaction index -> deviation; see mc/src/refmodel/interp.rs Script); reference: {}\n", src, devs, expected),
        ),
    };
    let real = match real {
        Ok(r) => r,
        Err(p) => {
            st.violation(mk("panic", format!("panic at {}: {}", p.location, p.message)));
            return script.trace;
        },
    };
    if rc.unclaimed {
        st.count("unclaimed-programs");
        return script.trace;
    }
    if !devs.is_empty() {
        st.count("nontrivial-distinct");
    }
    st.distinct("outcomes", &(describe(&rref), script.trace.clone()));
    let mut vars_real: Vec<(String, String)> = c.vars.iter().map(|(k, v)| (k.clone(), RV::from_ev(v).key())).collect();
    vars_real.sort();
    let vars_ref: Vec<(String, String)> = rc.vars.iter().map(|(k, v)| (k.clone(), v.key())).collect();
    let trace_real = c.trace.borrow().clone();
    let log_real = log_keys(&c.log.borrow());
    if !result_matches(&rref, &real) || vars_real != vars_ref || trace_real != script.trace || log_real != log_keys(&rc.log) {
        st.violation(mk(
            "order-or-effects-mismatch",
            format!("{} / variables {:?} / call log {:?} / context interactions {:?}", res_dbg(&real), vars_real, log_real, trace_real),
        ));
    }
    script.trace
}

/// Deviation-bounded exploration of the environment answers of one program.
fn explore_scripts(ast: &Ast, vars: &[(&'static str, RV)], ci: usize, bound: usize, st: &mut Stats) {
    let src = source_of(ast);
    let tree = match guarded(|| build_operator_tree::<DefaultNumericTypes>(&src)) {
        Ok(Ok(t)) => t,
        _ => {
            st.count("skipped/does-not-precompile");
            return;
        },
    };
    st.states += 1;
    fn go(ast: &Ast, tree: &ENode, src: &str, vars: &[(&'static str, RV)], ci: usize, devs: &BTreeMap<usize, u8>, from: usize, left: usize, st: &mut Stats) {
        let trace = run_scripted(ast, tree, src, vars, ci, devs, st);
        st.add(&format!("scripts-with-{}-deviations", devs.len()), 1);
        if left == 0 {
            return;
        }
        for i in from..trace.len() {
            for d in 1..=n_deviations(&trace[i]) {
                let mut dv = devs.clone();
                dv.insert(i, d);
                go(ast, tree, src, vars, ci, &dv, i + 1, left - 1, st);
            }
        }
    }
    go(ast, &tree, &src, vars, ci, &BTreeMap::new(), 0, bound, st);
}

/// Long programs: n recording calls in a chain, a tuple, a sum and nested call arguments, with a
/// failing call at position k; interleaved assignments.
fn scaling(thorough: bool) -> Stats {
    use super::scale::{climb, int, sizes};
    use crate::refmodel::ops::BinOp;
    super::on_big_stack(move || {
        let mut st = Stats::new();
        let ctxs = progs::initial_contexts();
        for n in sizes(thorough) {
            let positions: Vec<Option<usize>> = if n <= 20 {
                std::iter::once(None).chain((0..n).map(Some)).collect()
            } else {
                vec![None, Some(0), Some(n / 2), Some(n - 1)]
            };
            for fail_at in positions {
                let call = |i: usize| -> Ast {
                    let f = if Some(i) == fail_at { "typeof" } else if i % 2 == 0 { "r" } else { "s" };
                    Ast::Call(f.into(), Box::new(int(i as i64)))
                };
                let elems: Vec<Ast> = (0..n).map(call).collect();
                let mut programs: Vec<Ast> = Vec::new();
                if n >= 2 {
                    programs.push(Ast::Chain(elems.clone()));
                    programs.push(Ast::Tuple(elems.clone()));
                    programs.push(climb(&elems, &vec![BinOp::Add; n - 1]));
                    // assignments interleaved: x = r(0); x += s(1); ...
                    let mut asg: Vec<Ast> = vec![Ast::Asg(None, "x".into(), Box::new(call(0)))];
                    for i in 1..n {
                        asg.push(Ast::Asg(Some(BinOp::Add), "x".into(), Box::new(call(i))));
                    }
                    asg.push(Ast::Var("x".into()));
                    programs.push(Ast::Chain(asg));
                }
                // flat sequences mixing both separators without parentheses (`a; b, c; d`): a chain of tuples,
                // in four separator patterns (a tuple first, in the middle, last; tuples of two and of three)
                if n >= 3 {
                    for pattern in 0..4usize {
                        let mut chain: Vec<Ast> = Vec::new();
                        let mut tuple: Vec<Ast> = Vec::new();
                        for (i, e) in elems.iter().enumerate() {
                            tuple.push(e.clone());
                            let semicolon_after = match pattern {
                                0 => i % 2 == 1,          // a, b; c, d; ...
                                1 => i % 3 != 1,          // a; b, c; d; e, f; ...
                                2 => i % 3 == 2,          // a, b, c; d, e, f; ...
                                _ => i + 1 < n - 1,       // a; b; ...; y, z
                            };
                            if semicolon_after || i + 1 == n {
                                chain.push(if tuple.len() == 1 { tuple.pop().unwrap() } else { Ast::Tuple(std::mem::take(&mut tuple)) });
                                tuple.clear();
                            }
                        }
                        if chain.len() >= 2 {
                            programs.push(Ast::Chain(chain));
                        }
                    }
                }
                // nested arguments: r(s(r(...(0))))
                let mut nested = int(0);
                for i in 0..n {
                    let f = if Some(i) == fail_at { "typeof" } else if i % 2 == 0 { "r" } else { "s" };
                    nested = Ast::Call(f.into(), Box::new(nested));
                }
                programs.push(nested);
                for p in &programs {
                    check_program(p, &ctxs[0], 0, &mut st);
                    st.count("scaling-family-programs");
                }
            }
        }
        st
    })
}

/// Assignment operators whose left operand is a computed expression (`r(1) = s(2)`, `(u) += s(2)`): what
/// such an assignment means is not claimed, but its operands are operands like any other — the left one
/// is evaluated first, exactly once, then the right one, and the first failure wins.
fn computed_targets() -> Stats {
    let mut st = Stats::new();
    // (source, calls it makes, error class it fails with if any)
    let lhs: Vec<(&str, Vec<&str>, Option<&str>)> = vec![
        ("r(1)", vec!["r(I1)"], None),
        ("(r(1))", vec!["r(I1)"], None),
        ("(r(1), r(2))", vec!["r(I1)", "r(I2)"], None),
        ("r(\"x\")", vec!["r(S\"x\")"], None),
        ("(r(1); \"x\")", vec!["r(I1)"], None),
        ("(u)", vec![], Some("unknown-variable")),
        ("typeof(1)", vec!["typeof(I1)"], Some("boom")),
        ("(r(1), typeof(2))", vec!["r(I1)", "typeof(I2)"], Some("boom")),
        ("r(1) + (1 / 0)", vec!["r(I1)"], Some("arithmetic")),
    ];
    let rhs: Vec<(&str, Vec<&str>, Option<&str>)> = vec![
        ("s(7)", vec!["s(I7)"], None),
        ("(s(7), s(8))", vec!["s(I7)", "s(I8)"], None),
        ("typeof(9)", vec!["typeof(I9)"], Some("boom")),
        ("s(7) + (1 / 0)", vec!["s(I7)"], Some("arithmetic")),
        ("s(7) + u", vec!["s(I7)"], Some("unknown-variable")),
    ];
    let class_of = |e: &EErr| -> &'static str {
        match e {
            EvalexprError::CustomMessage(m) if m == "boom" => "boom",
            EvalexprError::VariableIdentifierNotFound(_) => "unknown-variable",
            EvalexprError::DivisionError { .. } => "arithmetic",
            _ => "other",
        }
    };
    for (l, lcalls, lfail) in &lhs {
        for (r, rcalls, rfail) in &rhs {
            for op in ["=", "+=", "-=", "*=", "/=", "%=", "^=", "&&=", "||="] {
                let src = format!("{} {} {}", l, op, r);
                let log: Log = Arc::new(Mutex::new(Vec::new()));
                let mut c = real_context(&[("x", RV::Int(1))], &log);
                let res = guarded(|| evalexpr::eval_with_context_mut(&src, &mut c));
                st.evaluations += 1;
                st.count("computed-assignment-targets");
                let mut want_calls: Vec<String> = lcalls.iter().map(|s| s.to_string()).collect();
                let want_err = if lfail.is_some() {
                    *lfail
                } else {
                    want_calls.extend(rcalls.iter().map(|s| s.to_string()));
                    *rfail
                };
                let got_calls = log_keys(&log.lock().unwrap());
                let (ok, shown) = match &res {
                    Err(p) => (false, format!("panic at {}: {}", p.location, p.message)),
                    Ok(r) => {
                        let class_ok = match (want_err, r) {
                            (Some(w), Err(e)) => class_of(e) == w,
                            (Some(_), Ok(_)) => false,
                            // both operands succeed: what the assignment then does is not claimed
                            (None, _) => true,
                        };
                        (class_ok && got_calls == want_calls, format!("{:?} / call log {:?}", r, got_calls))
                    },
                };
                if !ok {
                    st.violation(Violation {
                        property: ID,
                        kind: "computed-assignment-target-order-mismatch".into(),
                        input: json!({"axis": "computed-target", "source": src, "context": 1}),
                        expected: format!("call log {:?}{}", want_calls, want_err.map(|e| format!(", failing with the {} error", e)).unwrap_or_default()),
                        actual: shown,
                        test: test_wrap("c08_replay", &ctx_test_src(&[("x", RV::Int(1))], &src, "left operand first, then the right one; first failure wins")),
                    });
                }
            }
        }
    }
    st
}

/// A user function may fail with any error, including the kinds the library produces itself; whatever it
/// returns is *its* result: the call happens exactly once, its error is returned unchanged, nothing after it
/// is evaluated (no retry with another argument shape, no fall-back to a builtin, no re-interpretation).
fn error_kinds() -> Stats {
    let mut st = Stats::new();
    type MkErr = fn(&EV) -> EErr;
    let kinds: Vec<(&str, MkErr)> = vec![
        ("ExpectedTuple", |a| EvalexprError::expected_tuple(a.clone())),
        ("ExpectedInt", |a| EvalexprError::expected_int(a.clone())),
        ("ExpectedNumber", |a| EvalexprError::expected_number(a.clone())),
        ("ExpectedString", |a| EvalexprError::expected_string(a.clone())),
        ("ExpectedEmpty", |a| EvalexprError::expected_empty(a.clone())),
        // not FunctionIdentifierNotFound: by the Context trait's contract that is how a context says "I have no
        // such function", so the evaluator cannot tell it from a missing function (and falls back to a builtin)
        ("VariableIdentifierNotFound", |_| EvalexprError::VariableIdentifierNotFound("x".into())),
        ("WrongFunctionArgumentAmount", |_| EvalexprError::wrong_function_argument_amount(1, 2)),
        ("WrongOperatorArgumentAmount", |_| EvalexprError::wrong_operator_argument_amount(1, 2)),
        ("ContextNotMutable", |_| EvalexprError::ContextNotMutable),
        ("DivisionError", |a| EvalexprError::DivisionError { dividend: a.clone(), divisor: Value::Int(0) }),
        ("CustomMessage", |_| EvalexprError::CustomMessage("q".into())),
    ];
    // (source, calls before q, q's argument key, calls that must NOT happen afterwards)
    let programs: Vec<(&str, Vec<&str>, &str)> = vec![
        ("q(1)", vec![], "I1"),
        ("q 1", vec![], "I1"),
        ("q()", vec![], "E"),
        ("q(1, 2)", vec![], "T[I1,I2]"),
        ("q(\"ab\")", vec![], "S\"ab\""),
        ("r(1); q(2); s(3)", vec!["r(I1)"], "I2"),
        ("(r(1), q(2), s(3))", vec!["r(I1)"], "I2"),
        ("q(r(1)) + s(2)", vec!["r(I1)"], "I1"),
        ("x = q(5); s(1)", vec![], "I5"),
        ("len(q(7))", vec![], "I7"),
    ];
    for (kname, mk) in &kinds {
        for name in ["q", "len", "math::abs"] {
            for (src, before, qarg) in &programs {
                let src = src.replace("q(", &format!("{}(", name)).replace("q ", &format!("{} ", name)).replace("len(len(", &format!("typeof({}(", name));
                for shared in [false, true] {
                    let log: Log = Arc::new(Mutex::new(Vec::new()));
                    let mut c = real_context(&[], &log);
                    let l = log.clone();
                    let mk = *mk;
                    let fname = name.to_string();
                    c.set_function(
                        name.into(),
                        Function::new(move |a| {
                            l.lock().unwrap().push((fname.clone(), RV::from_ev(a)));
                            Err(mk(a))
                        }),
                    )
                    .unwrap();
                    let res = if shared { guarded(|| evalexpr::eval_with_context(&src, &c)) } else { guarded(|| evalexpr::eval_with_context_mut(&src, &mut c)) };
                    st.evaluations += 1;
                    st.count("error-kind-programs");
                    let got_calls = log_keys(&log.lock().unwrap());
                    let mut want_calls: Vec<String> = before.iter().map(|s| s.to_string()).collect();
                    want_calls.push(format!("{}({})", name, qarg));
                    // on a shared context an assignment target does not matter: the right-hand side fails first
                    // the error must be the one the function built from the argument it was (last) called with
                    let last_arg: EV = log.lock().unwrap().iter().rev().find(|(n, _)| n == name).map(|(_, v)| v.to_ev()).unwrap_or(Value::Empty);
                    let ok = match &res {
                        Ok(Err(e)) => got_calls == want_calls && format!("{:?}", e) == format!("{:?}", mk(&last_arg)),
                        _ => false,
                    };
                    if !ok {
                        st.violation(Violation {
                            property: ID,
                            kind: "user-function-error-not-final".into(),
                            input: json!({"axis": "error-kinds", "source": src, "context": 0, "function": name, "fails_with": kname, "shared_context": shared}),
                            expected: format!("the function's own {} error, call log {:?}", kname, want_calls),
                            actual: match &res {
                                Ok(r) => format!("{:?} / call log {:?}", r, got_calls),
                                Err(p) => format!("panic at {}: {}", p.location, p.message),
                            },
                            test: test_wrap("c08_replay", &format!("    // a user function `{}` that records its argument and fails with {}; evaluate {:?}\n", name, kname, src)),
                        });
                    }
                }
            }
        }
    }
    st
}

pub fn run(cfg: &Cfg) -> Report {
    let (n_hash, n_script2, n_script1) = cfg.tier.pick((3, 1, 2), (3, 2, 3));
    let thorough = cfg.tier == Tier::Thorough;
    let counts = progs::counts(3);
    let lv = progs::leaves();
    let ctxs = progs::initial_contexts();
    let mut stats = Stats::new();
    // axis 1
    for n in 0..=n_hash {
        stats.merge(par_chunks(counts[n], 2048, |r| {
            let mut st = Stats::new();
            for idx in r {
                let ast = progs::unrank(&counts, &lv, n, idx);
                // quick tier: programs of the largest size without the comparison operators
                if n >= 3 && !thorough && progs::has_comparison(&ast) {
                    continue;
                }
                for (ci, vars) in ctxs.iter().enumerate() {
                    // quick tier: the fourth context (x = empty tuple) for programs of <= 2 operator nodes
                    if ci == 3 && n >= 3 && !thorough {
                        continue;
                    }
                    check_program(&ast, vars, ci, &mut st);
                }
                st.count("programs");
            }
            st
        }));
    }
    // axis 2: programs up to n_script2 with <= 2 deviations, up to n_script1 with <= 1
    for n in 0..=n_script1 {
        let bound = if n <= n_script2 { 2 } else { 1 };
        stats.merge(par_chunks(counts[n], 512, |r| {
            let mut st = Stats::new();
            for idx in r {
                let ast = progs::unrank(&counts, &lv, n, idx);
                for (ci, vars) in ctxs.iter().enumerate() {
                    explore_scripts(&ast, vars, ci, bound, &mut st);
                }
            }
            st
        }));
    }
    stats.merge(scaling(cfg.tier == Tier::Thorough));
    stats.merge(computed_targets());
    stats.merge(error_kinds());
    for src in ["r (1) + typeof (2) + s (3)", "false && r (1)", "x = 1 ; ( r (x) , x += 1 , s (x) ) ; 1 / 0 ; r (9)"] {
        let log: Log = Arc::new(Mutex::new(Vec::new()));
        let mut c = real_context(&[], &log);
        let r = evalexpr::eval_with_context_mut(src, &mut c);
        stats.sample(json!({"source": src, "result": format!("{:?}", r), "call_log": log_keys(&log.lock().unwrap()), "variables_afterwards": observe_vars(&c)}));
    }
    let guards = vec![
        ("programs that fail after effects happened were covered".to_string(), stats.get("reference/err-after-effects") > 0),
        ("succeeding and failing programs".to_string(), stats.get("reference/ok") > 0 && stats.get("reference/err") > 0),
        ("scripts with 1 and 2 deviations were explored".to_string(), stats.get("scripts-with-1-deviations") > 0 && stats.get("scripts-with-2-deviations") > 0),
    ];
    // model-checking style numbers: a state is a (program, context) pair under exploration of its
    // environment answers; a transition is one complete scripted execution on the implementation
    Report {
        property: ID,
        level: "model_checking",
        rule: format!("axis 1: every program with <= {n_hash} operator nodes over {{x = e, y = e, x += e, x &&= e, r(e), s(e), typeof(e) (a failing user function that shadows a total builtin), -e, e + (missing operand), e + e, e && e, e || e, e / e, e < e, e == e (the two comparisons up to 2 operator nodes in the quick tier), (e, e), (e; e)}} and leaves {{1, 0, true, false, x, unbound u, (), 2.5, \" s \", 1/0, true+1}} (the float and the string up to 2 operator nodes in the quick tier) x 4 initial contexts (x unbound / int / boolean / empty tuple; the fourth up to 2 operator nodes in the quick tier) on the real HashMapContext with recording functions, each program through eval_with_context_mut, through the shared-context walker (result and call log against the reference in read-only mode), through the mutable walker on a context without variable storage (every assignment fails with ContextNotMutable, nothing after it runs) and, if it has effects, through all 7 typed mutable views (same final variables and call log: evaluated exactly once), and call-free programs through the context-free Node::eval / eval_int / eval_boolean / eval_empty / eval_float / eval_string (= a fresh mutable context); axis 2: the same programs (<= {n_script2} operator nodes with <= 2 deviations, <= {n_script1} with <= 1) against a scripted Context whose i-th answer (get_value / call_function / set_value) deviates from the default as chosen by a deviation-bounded depth-first exploration; oracle: reference interpreter driven by the same script (result, final variables, ordered call log with arguments, ordered sequence of context interactions). Plus a user function (under its own name and under the names of two builtins) failing with each of 11 error kinds the library itself produces, in 10 call shapes on both walkers: called exactly once, its error returned unchanged, nothing evaluated after it. Plus 405 assignments whose left operand is a computed expression (9 left operands x 5 right operands x 9 assignment operators: left operand's calls, then the right operand's, first failure wins; the meaning of the assignment itself is not claimed). Plus scaling families: chains, tuples, unparenthesised chains of tuples in four separator patterns, sums, op-assign sequences and nested arguments of n recording calls for every n in 1..20 and up to 129 (quick) / 1..40 and up to 400 (thorough) with the failing call at every position (chosen positions above 20). States = (program, context) pairs explored on axis 2, transitions = scripted executions. Non-trivial = failing after effects, or >= 2 logged calls, or a deviating script; each (program, context, script) triple is enumerated exactly once, so the counter counts distinct cases"),
        nontrivial_set: "counter:nontrivial-distinct",
        exhaustive: true,
        bound_completed: format!("programs of {n_hash} operator nodes; 2 deviations up to {n_script2} nodes, 1 deviation up to {n_script1}"),
        assumptions: vec![
            "reference interpreter mc/src/refmodel/interp.rs".into(),
            "accepted both ways (not compared): an op-assign whose right-hand side assigns to its own target".into(),
        ],
        stats,
        guards,
        extra: json!({}),
    }
}

pub fn replay(case: &J) -> i32 {
    let input = &case["input"];
    let src = input["source"].as_str().unwrap_or_else(|| machinery_error("C08 replay: no source"));
    let ci = input["context"].as_u64().unwrap_or(0) as usize;
    if input["axis"].as_str() == Some("error-kinds") {
        let st = error_kinds();
        let mut only = Stats::new();
        only.evaluations = 1;
        only.violations.extend(st.violations.into_iter().filter(|v| v.input["source"].as_str() == Some(src) && v.input["fails_with"] == input["fails_with"] && v.input["function"] == input["function"]));
        return super::replay_verdict(ID, &only);
    }
    if input["axis"].as_str() == Some("computed-target") {
        // the family is small: re-run it and report whether the recorded source still fails
        let st = computed_targets();
        let hit = st.violations.iter().any(|v| v.input["source"].as_str() == Some(src));
        let mut only = Stats::new();
        only.evaluations = 1;
        if hit {
            only.violations.extend(st.violations.into_iter().filter(|v| v.input["source"].as_str() == Some(src)));
        }
        return super::replay_verdict(ID, &only);
    }
    let counts = progs::counts(3);
    let lv = progs::leaves();
    let ctxs = progs::initial_contexts();
    let mut st = Stats::new();
    for n in 0..=3 {
        for idx in 0..counts[n] {
            let ast = progs::unrank(&counts, &lv, n, idx);
            if source_of(&ast) == src {
                if input["axis"].as_str() == Some("scripted") {
                    let mut devs = BTreeMap::new();
                    for d in input["deviations"].as_array().cloned().unwrap_or_default() {
                        devs.insert(d[0].as_u64().unwrap() as usize, d[1].as_u64().unwrap() as u8);
                    }
                    let tree = build_operator_tree::<DefaultNumericTypes>(src).unwrap_or_else(|_| machinery_error("C08 replay: does not precompile"));
                    run_scripted(&ast, &tree, src, &ctxs[ci], ci, &devs, &mut st);
                } else {
                    check_program(&ast, &ctxs[ci], ci, &mut st);
                }
                return super::replay_verdict(ID, &st);
            }
        }
    }
    // a scaling-family program: rebuild the AST from the real tree of the recorded source
    if let Some(ast) = build_operator_tree::<DefaultNumericTypes>(src).ok().and_then(|t| super::selftest::node_to_ast(&t)) {
        check_program(&ast, &ctxs[ci], ci, &mut st);
        return super::replay_verdict(ID, &st);
    }
    machinery_error("C08 replay: program not in the enumerated domain")
}
