//! C12 — all evaluation entry points are views of one evaluator.

use super::common::*;
use crate::engine::*;
use crate::refmodel::value::{RV, EV};
use evalexpr::*;
use serde_json::{json, Value as J};
use std::fmt::Debug;

const ID: &str = "C12";

pub fn alphabet() -> Vec<&'static str> {
    vec!["1", "1.5", "\" s \"", "true", "a", "f", "len", "(", ")", ",", ";", "+", "=", "!", "&", "&&"]
}

fn canon<T: Debug>(r: &Result<T, EErr>) -> String {
    format!("{:?}", r)
}

/// The seven typed projections of an untyped result, as canonical strings. The expected-type errors are
/// written as struct literals: the crate's own constructor functions are shared helpers of the code under
/// test and must not define the expectation (round 11).
fn projections(u: &ERes) -> Vec<(&'static str, String)> {
    let e = |x: &EErr| x.clone();
    vec![
        (
            "string",
            canon(&match u {
                Ok(Value::String(s)) => Ok(s.clone()),
                Ok(v) => Err(EvalexprError::ExpectedString { actual: v.clone() }),
                Err(x) => Err(e(x)),
            }),
        ),
        (
            "int",
            canon(&match u {
                Ok(Value::Int(i)) => Ok(*i),
                Ok(v) => Err(EvalexprError::ExpectedInt { actual: v.clone() }),
                Err(x) => Err(e(x)),
            }),
        ),
        (
            "float",
            canon(&match u {
                Ok(Value::Float(f)) => Ok(*f),
                Ok(v) => Err(EvalexprError::ExpectedFloat { actual: v.clone() }),
                Err(x) => Err(e(x)),
            }),
        ),
        (
            "number",
            canon(&match u {
                Ok(Value::Float(f)) => Ok(*f),
                Ok(Value::Int(i)) => Ok(*i as f64),
                Ok(v) => Err(EvalexprError::ExpectedNumber { actual: v.clone() }),
                Err(x) => Err(e(x)),
            }),
        ),
        (
            "boolean",
            canon(&match u {
                Ok(Value::Boolean(b)) => Ok(*b),
                Ok(v) => Err(EvalexprError::ExpectedBoolean { actual: v.clone() }),
                Err(x) => Err(e(x)),
            }),
        ),
        (
            "tuple",
            canon(&match u {
                Ok(Value::Tuple(t)) => Ok(t.clone()),
                Ok(v) => Err(EvalexprError::ExpectedTuple { actual: v.clone() }),
                Err(x) => Err(e(x)),
            }),
        ),
        (
            "empty",
            canon(&match u {
                Ok(Value::Empty) => Ok(()),
                Ok(v) => Err(EvalexprError::ExpectedEmpty { actual: v.clone() }),
                Err(x) => Err(e(x)),
            }),
        ),
    ]
}

/// All 24 string-level results for (s, c): [context-free, with_context, with_context_mut] × [untyped + 7 typed],
/// plus the contexts left by the `_mut` variants.
struct Results {
    /// (entry point name, canonical result)
    res: Vec<(String, String)>,
    /// (entry point name, variables afterwards)
    after: Vec<(String, Vec<(String, String)>)>,
}

macro_rules! string_level {
    ($s:expr, $c:expr, $out:expr) => {{
        let s: &str = $s;
        let c: &HCtx = $c;
        let out: &mut Results = $out;
        out.res.push(("eval".into(), canon(&eval(s))));
        out.res.push(("eval_string".into(), canon(&eval_string(s))));
        out.res.push(("eval_int".into(), canon(&eval_int(s))));
        out.res.push(("eval_float".into(), canon(&eval_float(s))));
        out.res.push(("eval_number".into(), canon(&eval_number(s))));
        out.res.push(("eval_boolean".into(), canon(&eval_boolean(s))));
        out.res.push(("eval_tuple".into(), canon(&eval_tuple(s))));
        out.res.push(("eval_empty".into(), canon(&eval_empty(s))));
        out.res.push(("eval_with_context".into(), canon(&eval_with_context(s, c))));
        out.res.push(("eval_string_with_context".into(), canon(&eval_string_with_context(s, c))));
        out.res.push(("eval_int_with_context".into(), canon(&eval_int_with_context(s, c))));
        out.res.push(("eval_float_with_context".into(), canon(&eval_float_with_context(s, c))));
        out.res.push(("eval_number_with_context".into(), canon(&eval_number_with_context(s, c))));
        out.res.push(("eval_boolean_with_context".into(), canon(&eval_boolean_with_context(s, c))));
        out.res.push(("eval_tuple_with_context".into(), canon(&eval_tuple_with_context(s, c))));
        out.res.push(("eval_empty_with_context".into(), canon(&eval_empty_with_context(s, c))));
        macro_rules! m {
            ($name:expr, $f:ident) => {{
                let mut cc = c.clone();
                out.res.push(($name.into(), canon(&$f(s, &mut cc))));
                out.after.push(($name.into(), observe_vars(&cc)));
            }};
        }
        m!("eval_with_context_mut", eval_with_context_mut);
        m!("eval_string_with_context_mut", eval_string_with_context_mut);
        m!("eval_int_with_context_mut", eval_int_with_context_mut);
        m!("eval_float_with_context_mut", eval_float_with_context_mut);
        m!("eval_number_with_context_mut", eval_number_with_context_mut);
        m!("eval_boolean_with_context_mut", eval_boolean_with_context_mut);
        m!("eval_tuple_with_context_mut", eval_tuple_with_context_mut);
        m!("eval_empty_with_context_mut", eval_empty_with_context_mut);
    }};
}

macro_rules! tree_level {
    ($t:expr, $c:expr, $out:expr) => {{
        let t: &ENode = $t;
        let c: &HCtx = $c;
        let out: &mut Results = $out;
        out.res.push(("eval".into(), canon(&t.eval())));
        out.res.push(("eval_string".into(), canon(&t.eval_string())));
        out.res.push(("eval_int".into(), canon(&t.eval_int())));
        out.res.push(("eval_float".into(), canon(&t.eval_float())));
        out.res.push(("eval_number".into(), canon(&t.eval_number())));
        out.res.push(("eval_boolean".into(), canon(&t.eval_boolean())));
        out.res.push(("eval_tuple".into(), canon(&t.eval_tuple())));
        out.res.push(("eval_empty".into(), canon(&t.eval_empty())));
        out.res.push(("eval_with_context".into(), canon(&t.eval_with_context(c))));
        out.res.push(("eval_string_with_context".into(), canon(&t.eval_string_with_context(c))));
        out.res.push(("eval_int_with_context".into(), canon(&t.eval_int_with_context(c))));
        out.res.push(("eval_float_with_context".into(), canon(&t.eval_float_with_context(c))));
        out.res.push(("eval_number_with_context".into(), canon(&t.eval_number_with_context(c))));
        out.res.push(("eval_boolean_with_context".into(), canon(&t.eval_boolean_with_context(c))));
        out.res.push(("eval_tuple_with_context".into(), canon(&t.eval_tuple_with_context(c))));
        out.res.push(("eval_empty_with_context".into(), canon(&t.eval_empty_with_context(c))));
        macro_rules! m {
            ($name:expr, $f:ident) => {{
                let mut cc = c.clone();
                out.res.push(($name.into(), canon(&t.$f(&mut cc))));
                out.after.push(($name.into(), observe_vars(&cc)));
            }};
        }
        m!("eval_with_context_mut", eval_with_context_mut);
        m!("eval_string_with_context_mut", eval_string_with_context_mut);
        m!("eval_int_with_context_mut", eval_int_with_context_mut);
        m!("eval_float_with_context_mut", eval_float_with_context_mut);
        m!("eval_number_with_context_mut", eval_number_with_context_mut);
        m!("eval_boolean_with_context_mut", eval_boolean_with_context_mut);
        m!("eval_tuple_with_context_mut", eval_tuple_with_context_mut);
        m!("eval_empty_with_context_mut", eval_empty_with_context_mut);
    }};
}

pub fn contexts() -> Vec<(String, HCtx)> {
    let mut out: Vec<(String, HCtx)> = vec![("fresh".into(), HCtx::new())];
    for v in [
        RV::Int(2),
        RV::Float(2.5),
        RV::Str("t".into()),
        RV::Bool(false),
        RV::Tuple(vec![RV::Int(1), RV::Int(2)]),
        RV::Tuple(vec![]),
        RV::Empty,
    ] {
        let mut c = HCtx::new();
        c.set_value("a".into(), v.to_ev()).unwrap();
        out.push((format!("a = {}", v.key()), c));
    }
    let mut c = HCtx::new();
    c.set_function("f".into(), Function::new(|a| Ok(a.clone()))).unwrap();
    c.set_value("a".into(), Value::Int(2)).unwrap();
    out.push(("a = 2, f = identity".into(), c));
    let mut c = HCtx::new();
    c.set_function("f".into(), Function::new(|_| Ok(Value::Float(0.5)))).unwrap();
    out.push(("f = const 0.5".into(), c));
    let mut c = HCtx::new();
    c.set_builtin_functions_disabled(true).unwrap();
    c.set_value("a".into(), Value::Int(2)).unwrap();
    out.push(("a = 2, builtins disabled".into(), c));
    let mut c = HCtx::new();
    c.set_function("len".into(), Function::new(|_| Ok(Value::Int(300)))).unwrap();
    c.set_value("a".into(), Value::String("t".into())).unwrap();
    out.push(("a = \"t\", user function len shadows the builtin".into(), c));
    out
}

fn check(src: &str, ctxs: &[(String, HCtx)], st: &mut Stats) {
    let tree = match guarded(|| build_operator_tree::<DefaultNumericTypes>(src)) {
        Ok(t) => t,
        Err(p) => {
            st.violation(viol("panic", src, "", "Ok or Err".into(), format!("panic at {}: {}", p.location, p.message)));
            return;
        },
    };
    st.count(if tree.is_ok() { "sources/precompile" } else { "sources/rejected" });
    // one more context per source: variables whose *names* are the source text itself (set_value accepts
    // any string); unless the source is that bare identifier they are never read, and every relation
    // below must hold there as well (an entry point that looks the whole string up first breaks them)
    let mut own: Vec<(String, HCtx)> = Vec::new();
    let single_ident = matches!(crate::refmodel::lexer::lex(src).as_deref(), Ok([crate::refmodel::lexer::LTok::Ident(_)]));
    if !single_ident {
        let mut c = HCtx::new();
        let ok = c.set_value("a".into(), Value::Int(2)).is_ok()
            && c.set_value(src.to_string(), Value::Int(77)).is_ok()
            && c.set_value(src.trim().to_string(), Value::Int(77)).is_ok();
        if ok {
            own.push(("a = 2 and a variable named like the source text".into(), c));
        }
    }
    for (cname, c) in ctxs.iter().chain(own.iter()) {
        let before = observe_vars(c);
        let run_string = |out: &mut Results| string_level!(src, c, out);
        let mut s1 = Results { res: vec![], after: vec![] };
        if let Err(p) = guarded(|| run_string(&mut s1)) {
            st.violation(viol("panic", src, cname, "Ok or Err".into(), format!("panic at {}: {}", p.location, p.message)));
            return;
        }
        st.evaluations += 24;
        // repeatability from equal context states
        let mut s2 = Results { res: vec![], after: vec![] };
        let _ = guarded(|| run_string(&mut s2));
        st.evaluations += 24;
        if s1.res != s2.res || s1.after != s2.after {
            st.violation(viol("not-repeatable", src, cname, format!("{:?}", s1.res), format!("{:?}", s2.res)));
            return;
        }
        if observe_vars(c) != before {
            st.violation(viol("shared-context-mutated", src, cname, format!("{:?}", before), format!("{:?}", observe_vars(c))));
            return;
        }
        let get = |r: &Results, name: &str| r.res.iter().find(|x| x.0 == name).map(|x| x.1.clone()).unwrap();
        // untyped results (re-run to have the values)
        let u_free = eval(src);
        let u_ctx = eval_with_context(src, c);
        let mut cm = c.clone();
        let u_mut = eval_with_context_mut(src, &mut cm);
        let after_mut = observe_vars(&cm);
        st.evaluations += 3;
        match &u_mut {
            Ok(v) => st.count(&format!("untyped-mut/ok-{:?}", RV::from_ev(v).rtype())),
            Err(_) => st.count("untyped-mut/err"),
        }
        // typed = projection of untyped
        for (suffix, u) in [("", &u_free), ("_with_context", &u_ctx), ("_with_context_mut", &u_mut)] {
            let untyped_name = format!("eval{}", suffix);
            if get(&s1, &untyped_name) != canon(u) {
                st.violation(viol("not-repeatable", src, cname, canon(u), get(&s1, &untyped_name)));
                return;
            }
            for (ty, want) in projections(u) {
                let name = format!("eval_{}{}", ty, suffix);
                let got = get(&s1, &name);
                if got != want {
                    st.violation(viol(
                        "typed-entry-point-is-not-a-projection",
                        src,
                        cname,
                        format!("{} returns {} (projection of {} = {})", name, want, untyped_name, canon(u)),
                        got,
                    ));
                    return;
                }
            }
        }
        // sources without an assignment operator: the shared-context family and the mutable family are
        // views of the same evaluator too
        let has_assignment = match crate::refmodel::lexer::lex(src) {
            Ok(ts) => ts.iter().any(|t| matches!(t, crate::refmodel::lexer::LTok::Op(o) if o.ends_with('=') && !["==", "!=", "<=", ">="].contains(o))),
            Err(_) => true,
        };
        if !has_assignment && canon(&u_ctx) != canon(&u_mut) {
            st.violation(viol(
                "shared-and-mutable-families-differ",
                src,
                cname,
                format!("eval_with_context_mut = {}", canon(&u_mut)),
                format!("eval_with_context = {}", canon(&u_ctx)),
            ));
            return;
        }
        // every `_mut` variant leaves the context as the untyped `_mut` run does
        for (name, vars) in &s1.after {
            if *vars != after_mut {
                st.violation(viol("mut-variant-leaves-different-context", src, cname, format!("{:?}", after_mut), format!("{}: {:?}", name, vars)));
                return;
            }
        }
        // context-free forms = evaluation in a fresh HashMapContext
        let fresh = eval_with_context_mut(src, &mut HCtx::new());
        st.evaluations += 1;
        if canon(&fresh) != canon(&u_free) {
            st.violation(viol("context-free-differs-from-fresh-context", src, cname, canon(&fresh), canon(&u_free)));
            return;
        }
        // tree level = string level; build_operator_tree(s) is Err(e) iff every entry point returns Err(e)
        match &tree {
            Ok(t) => {
                let mut t1 = Results { res: vec![], after: vec![] };
                if let Err(p) = guarded(|| tree_level!(t, c, &mut t1)) {
                    st.violation(viol("panic", src, cname, "Ok or Err".into(), format!("panic at {}: {}", p.location, p.message)));
                    return;
                }
                st.evaluations += 24;
                if t1.res != s1.res || t1.after != s1.after {
                    let d = t1.res.iter().zip(&s1.res).find(|(a, b)| a != b).map(|(a, b)| format!("Node::{} = {} but {} = {}", a.0, a.1, b.0, b.1));
                    st.violation(viol("tree-level-differs-from-string-level", src, cname, "equal results and contexts".into(), d.unwrap_or_else(|| "contexts differ".into())));
                    return;
                }
                // a copy of the precompiled tree is the same precompiled tree: `clone()`, and `clone_from` into a
                // tree that held another expression (round 12)
                let t2 = t.clone();
                let mut t3 = build_operator_tree::<DefaultNumericTypes>("a <= 1 ; f ( ! true , \" s \" ) ; b = 2").unwrap_or_else(|e| machinery_error(&format!("C12: the used tree does not precompile: {e:?}")));
                t3.clone_from(t);
                for (label, tc) in [("a clone of the tree", &t2), ("a used tree overwritten by clone_from", &t3)] {
                    let got = guarded(|| {
                        let mut cc = c.clone();
                        let r = vec![canon(&tc.eval()), canon(&tc.eval_with_context(c)), canon(&tc.eval_with_context_mut(&mut cc))];
                        (r, observe_vars(&cc))
                    });
                    st.evaluations += 3;
                    let want = (
                        vec![get(&t1, "eval"), get(&t1, "eval_with_context"), get(&t1, "eval_with_context_mut")],
                        t1.after.iter().find(|x| x.0 == "eval_with_context_mut").map(|x| x.1.clone()).unwrap_or_default(),
                    );
                    match got {
                        Ok(g) if g == want => {},
                        Ok(g) => {
                            st.violation(viol("copied-tree-differs", src, cname, format!("{:?} (the precompiled tree)", want), format!("{:?} ({})", g, label)));
                            return;
                        },
                        Err(p) => {
                            st.violation(viol("panic", src, cname, "Ok or Err".into(), format!("{}: panic at {}: {}", label, p.location, p.message)));
                            return;
                        },
                    }
                }
            },
            Err(e) => {
                let want_untyped = canon(&Err::<EV, EErr>(e.clone()));
                for (name, got) in &s1.res {
                    // every typed/untyped variant must return exactly that error
                    let ok = if name == "eval" || name == "eval_with_context" || name == "eval_with_context_mut" {
                        *got == want_untyped
                    } else {
                        got.starts_with("Err(") && *got == format!("Err({:?})", e)
                    };
                    if !ok {
                        st.violation(viol("precompile-error-not-passed-through", src, cname, format!("Err({:?})", e), format!("{} = {}", name, got)));
                        return;
                    }
                }
            },
        }
    }
}

fn viol(kind: &str, src: &str, ctx: &str, expected: String, actual: String) -> Violation {
    Violation {
        property: ID,
        kind: kind.into(),
        input: json!({"source": src, "context": ctx}),
        expected,
        actual,
        test: test_wrap(
            "c12_replay",
            &format!("    // context: {}\n    let s = {:?};\n    panic!(\"untyped {{:?}} / int {{:?}} / number {{:?}} / tree {{:?}}\", eval(s), eval_int(s), eval_number(s), build_operator_tree::<DefaultNumericTypes>(s).map(|t| t.eval()));\n", ctx, src),
        ),
    }
}

/// Histories of context-free calls on one thread: whatever was evaluated before (successfully or not),
/// a context-free form behaves as evaluation in a fresh, discarded HashMapContext.
fn context_free_histories(depth: usize) -> Stats {
    let pool: Vec<&'static str> = vec![
        "a = 1",
        "a = 1.5",
        "a = \"s\"",
        "a = 1 ; f",
        "a = 1 , f",
        "a = 1.5 ; 1 + true",
        "a = true ; a = 1",
        "b = ( a = 2 ; a ) ; f ( )",
        "a",
        "a + 1",
        "a = a",
        "a += 1",
        "b",
        "f",
        "f ( 1 )",
        "1",
        "( 1 , a )",
        "a ; 1",
        "1 +",
        "\"s\" + a",
        "!",
    ];
    let n = pool.len();
    let total = (n as u64).pow(depth as u32);
    par_chunks(total, 64, |r| {
        let mut st = Stats::new();
        for code in r {
            let mut c = code;
            let hist: Vec<&'static str> = (0..depth)
                .map(|_| {
                    let s = pool[(c % n as u64) as usize];
                    c /= n as u64;
                    s
                })
                .collect();
            let (last, before) = hist.split_last().unwrap();
            let r = guarded(|| {
                for s in before {
                    let _ = eval(s);
                    if let Ok(t) = build_operator_tree::<DefaultNumericTypes>(s) {
                        let _ = t.eval_int();
                    }
                }
                let mut got: Vec<(String, String)> = Vec::new();
                got.push(("eval".into(), canon(&eval(last))));
                got.push(("eval_string".into(), canon(&eval_string(last))));
                got.push(("eval_int".into(), canon(&eval_int(last))));
                got.push(("eval_float".into(), canon(&eval_float(last))));
                got.push(("eval_number".into(), canon(&eval_number(last))));
                got.push(("eval_boolean".into(), canon(&eval_boolean(last))));
                got.push(("eval_tuple".into(), canon(&eval_tuple(last))));
                got.push(("eval_empty".into(), canon(&eval_empty(last))));
                if let Ok(t) = build_operator_tree::<DefaultNumericTypes>(last) {
                    got.push(("Node::eval".into(), canon(&t.eval())));
                    got.push(("Node::eval_int".into(), canon(&t.eval_int())));
                    got.push(("Node::eval_tuple".into(), canon(&t.eval_tuple())));
                }
                got
            });
            st.evaluations += 11 + 2 * before.len() as u64;
            st.count("context-free-histories");
            st.states += 1;
            let got = match r {
                Ok(g) => g,
                Err(p) => {
                    st.violation(viol("panic", last, &format!("after {:?}", before), "Ok or Err".into(), format!("panic at {}: {}", p.location, p.message)));
                    continue;
                },
            };
            let fresh = eval_with_context_mut(last, &mut HCtx::new());
            let want: std::collections::BTreeMap<&str, String> = projections(&fresh).into_iter().collect();
            for (name, g) in &got {
                let w = match name.as_str() {
                    "eval" | "Node::eval" => canon(&fresh),
                    other => want[other.trim_start_matches("Node::").trim_start_matches("eval_")].clone(),
                };
                if *g != w {
                    st.violation(viol(
                        "context-free-form-depends-on-history",
                        last,
                        &format!("context-free calls made before on the same thread: {:?}", before),
                        format!("{} = {} (evaluation in a fresh HashMapContext)", name, w),
                        g.clone(),
                    ));
                    break;
                }
            }
        }
        st
    })
}

pub fn run(cfg: &Cfg) -> Report {
    let max = cfg.tier.pick(4, 5);
    let alpha = alphabet();
    let a = alpha.len();
    let mut prefixes: Vec<Vec<&'static str>> = vec![vec![]];
    for t in &alpha {
        prefixes.push(vec![t]);
        for u in &alpha {
            prefixes.push(vec![t, u]);
        }
    }
    let mut stats = par_items(&prefixes, |_, p| {
        let ctxs = contexts();
        let mut st = Stats::new();
        fn ext(cur: &mut Vec<&'static str>, alpha: &[&'static str], max: usize, top: bool, f: &mut dyn FnMut(&[&'static str])) {
            if !top || cur.len() >= 2 || true {
                f(cur);
            }
            if cur.len() == max || cur.len() < 2 {
                return;
            }
            for t in alpha {
                cur.push(t);
                ext(cur, alpha, max, false, f);
                cur.pop();
            }
        }
        let mut cur = p.clone();
        ext(&mut cur, &alpha, max, true, &mut |seq| {
            let src = seq.join(" ");
            check(&src, &ctxs, &mut st);
            // the same tokens without spaces where the reference lexer still reads the same tokens
            if seq.len() <= 4 {
                let mut compact = String::new();
                for (i, t) in seq.iter().enumerate() {
                    let wordy = |x: &str| x.chars().next().map(|c| c.is_alphanumeric() || c == '"').unwrap_or(false);
                    if i > 0 && wordy(seq[i - 1]) && wordy(t) {
                        compact.push(' ');
                    }
                    compact.push_str(t);
                }
                if compact != src {
                    if let (Ok(a), Ok(b)) = (crate::refmodel::lexer::lex(&compact), crate::refmodel::lexer::lex(&src)) {
                        if crate::refmodel::lexer::same_tokens(&a, &b) {
                            check(&compact, &ctxs, &mut st);
                        }
                    }
                }
            }
            st.count("sources");
            st.states += 1;
            if seq.len() >= 2 {
                st.count("nontrivial-distinct");
            }
        });
        st
    });
    stats.merge(context_free_histories(cfg.tier.pick(2, 3)));
    // scaling families: long expressions of every result type through every entry point
    {
        let ctxs = contexts();
        for n in super::scale::sizes(cfg.tier == Tier::Thorough) {
            for src in [
                format!("{}1", "1 + ".repeat(n)),
                format!("{}1.5", "1.5 * ".repeat(n)),
                format!("{}\"s\"", "\"s\" + ".repeat(n)),
                format!("{}true", "! ".repeat(n)),
                format!("{}a", "1 , ".repeat(n)),
                format!("{}a", "a = 1 ; ".repeat(n)),
                format!("{}1{}", "( ".repeat(n), " )".repeat(n)),
                format!("{}a", "f ".repeat(n)),
                format!("{}", "1 ; ".repeat(n)),
                format!("{}&", "1 + ".repeat(n)),
                format!("a = 0 ; {}a", "a += 1 ; ".repeat(n)),
            ] {
                check(&src, &ctxs, &mut stats);
                stats.count("scaling-family-sources");
            }
        }
    }
    // results of every size: `a` bound to a string of L bytes and to a tuple of L elements (nested once as
    // well), for every L up to the bound, through every entry point: a payload or an expected-type error
    // that is abridged, re-rendered or copied lossily from some size on breaks the projection (round 11)
    {
        let top = cfg.tier.pick(300usize, 1100usize);
        for l in 0..=top {
            let mut cs: Vec<(String, HCtx)> = Vec::new();
            let mut c = HCtx::new();
            c.set_value("a".into(), Value::String("x".repeat(l))).unwrap();
            cs.push((format!("a = string of {} bytes", l), c));
            let mut c = HCtx::new();
            c.set_value("a".into(), Value::Tuple((0..l as i64).map(Value::Int).collect())).unwrap();
            cs.push((format!("a = tuple of {} ints", l), c));
            let mut c = HCtx::new();
            c.set_value("a".into(), Value::Tuple(vec![Value::Tuple(vec![Value::String("y".repeat(l)); 2]), Value::Tuple(vec![Value::Empty; l])])).unwrap();
            cs.push((format!("a = ((string of {l} bytes, same), tuple of {l} empty values)"), c));
            for src in ["a", "(a, 1)", "b = a; b"] {
                check(src, &cs, &mut stats);
                stats.count("large-result-sources");
            }
        }
    }
    // every operator (binary, prefix, assignment) between the variable `a` — bound to each type by the
    // contexts — and each constant that looks neutral, absorbing or constant-foldable for some type, in both
    // orders and nested: what a precompile-time simplification would rewrite, string level and tree level
    // must still agree on (`a * 1` is a type error for a boolean `a`, not `a`)
    {
        let ctxs = contexts();
        let consts = ["0", "1", "0.0", "1.0", "-1", "2", "\"\"", "\" s \"", "true", "false", "()", "(1, 2)"];
        let ops = ["+", "-", "*", "/", "%", "^", "==", "!=", "<", ">", "<=", ">=", "&&", "||"];
        for k in consts {
            for op in ops {
                for src in [format!("a {op} {k}"), format!("{k} {op} a"), format!("{k} {op} {k}"), format!("(a {op} {k}) {op} {k}"), format!("f(a {op} {k})"), format!("a {op} {k}; a"), format!("b = a {op} {k}; b"), format!("a {op}= {k}; a")] {
                    check(&src, &ctxs, &mut stats);
                    stats.count("constant-operand-sources");
                }
            }
            for src in [format!("-{k}"), format!("!{k}"), format!("-(-{k})"), format!("!!{k}"), format!("len({k})"), format!("if({k}, a, 1)"), format!("if(true, {k}, a)"), format!("({k}; a)"), format!("({k}, a)")] {
                check(&src, &ctxs, &mut stats);
                stats.count("constant-operand-sources");
            }
        }
    }
    stats.transitions = stats.evaluations;
    for src in ["a = 1.5 ; a", "f ( 1 , true )", "1 + &", "( a , \"s\" )"] {
        stats.sample(json!({"source": src, "eval": format!("{:?}", eval(src)), "eval_number": format!("{:?}", eval_number(src)), "eval_tuple": format!("{:?}", eval_tuple(src))}));
    }
    let guards = vec![
        ("all six value types and errors occurred as untyped results".to_string(),
            ["Int", "Float", "Str", "Bool", "Tuple", "Empty"].iter().all(|t| stats.get(&format!("untyped-mut/ok-{}", t)) > 0) && stats.get("untyped-mut/err") > 0),
        ("sources that precompile and sources that do not".to_string(), stats.get("sources/precompile") > 0 && stats.get("sources/rejected") > 0),
        ("the Debug renderings used to compare results tell all pool values apart".to_string(), debug_renderings_tell_values_apart()),
    ];
    Report {
        property: ID,
        level: "model_checking",
        rule: format!("every token sequence of length <= {max} over the {a}-token alphabet `1 1.5 \" s \" true a f len ( ) , ; + = ! & &&` (well-formed or not; reaches all six result types and every error stage) x 13 contexts (fresh; a bound to each of the six types and to the empty tuple; user function f; builtins disabled; a user function shadowing the builtin `len`; a context holding variables named like the source text itself) x all 24 string-level entry points (run twice) + the 24 Node methods (and the three untyped ones on a clone of the tree and on a used tree overwritten by clone_from) + build_operator_tree; oracle: each typed result is the projection of the matching untyped result, `_mut` variants leave the same context, tree level = string level, context-free = fresh HashMapContext, precompile error passed through by all 48; plus every history of 2 (quick) / 3 (thorough) context-free calls over a pool of 21 sources (assignments, assignments followed by a failure, reads, retypes) run back to back on one thread: the last call must behave as evaluation in a fresh context; plus every operator between the variable `a` and each of 12 constants that look neutral, absorbing or foldable (`0`, `1`, `0.0`, `1.0`, `\"\"`, `true`, `false`, `()` ...) in both orders, nested, assigned and as arguments; plus results of every size (`a` bound to a string of L bytes, a tuple of L elements, and nested ones, for every L in 0..=300 / 0..=1100, read directly, inside a tuple and through an assignment); plus scaling families (sums, products, concatenations, negations, tuples, chains of assignments, nestings, call chains of n elements for n in 1..20 and up to 129 / 1..40 and up to 400) through all entry points. States = sources, transitions = entry-point executions. Non-trivial = sources of >= 2 tokens (each enumerated once)"),
        nontrivial_set: "counter:nontrivial-distinct",
        exhaustive: true,
        bound_completed: format!("token sequences of length {max}"),
        assumptions: vec!["projection rules written from the property statement (payload / expected-type error carrying the value / errors passed through / number converts ints)".into()],
        stats,
        guards,
        extra: json!({}),
    }
}

pub fn replay(case: &J) -> i32 {
    let src = case["input"]["source"].as_str().unwrap_or_else(|| machinery_error("C12 replay: no source"));
    let mut st = Stats::new();
    check(src, &contexts(), &mut st);
    super::replay_verdict(ID, &st)
}
