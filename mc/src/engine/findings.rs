//! Known findings: `/verif/known_findings.txt`, committed, read-only at run time.
//!
//!   known: property=<id> finding=<fid> matcher=<name> :: <what fails>
//!   fixed: property=<id> <commit> <what failed>
//! A `known` entry suppresses a violating case only if its named matcher (a predicate implemented
//! below, over the violation's kind and concrete input) matches that very case. `fixed` entries
//! suppress nothing.

use super::{Violation, VERIF_DIR};
use std::sync::OnceLock;

#[derive(Clone, Debug)]
pub struct Finding {
    pub status: String,
    pub id: String,
    pub property: String,
    pub matcher: String,
    pub what: String,
}

static FINDINGS: OnceLock<Vec<Finding>> = OnceLock::new();

pub fn load() -> &'static Vec<Finding> {
    FINDINGS.get_or_init(|| {
        let path = format!("{}/known_findings.txt", VERIF_DIR);
        let text = match std::fs::read_to_string(&path) {
            Ok(t) => t,
            Err(_) => return Vec::new(),
        };
        let mut out = Vec::new();
        for (n, line) in text.lines().enumerate() {
            let line = line.trim();
            if line.is_empty() || line.starts_with('#') {
                continue;
            }
            let bad = || -> ! { super::machinery_error(&format!("known_findings.txt line {}: cannot parse", n + 1)) };
            let field = |head: &str, key: &str| -> Option<String> {
                head.split_whitespace()
                    .find_map(|w| w.strip_prefix(key).and_then(|r| r.strip_prefix('=')).map(|s| s.to_string()))
            };
            if let Some(rest) = line.strip_prefix("known:") {
                let (head, what) = match rest.split_once("::") {
                    Some(x) => x,
                    None => bad(),
                };
                match (field(head, "property"), field(head, "finding"), field(head, "matcher")) {
                    (Some(property), Some(id), Some(matcher)) => out.push(Finding {
                        status: "known".into(),
                        id,
                        property,
                        matcher,
                        what: what.trim().to_string(),
                    }),
                    _ => bad(),
                }
            } else if let Some(rest) = line.strip_prefix("fixed:") {
                let mut it = rest.trim().splitn(3, ' ');
                let property = it.next().and_then(|p| p.strip_prefix("property=")).map(|s| s.to_string());
                let commit = it.next().map(|s| s.to_string());
                let what = it.next().unwrap_or("").to_string();
                match (property, commit) {
                    (Some(property), Some(commit)) => out.push(Finding {
                        status: "fixed".into(),
                        id: commit,
                        property,
                        matcher: String::new(),
                        what,
                    }),
                    _ => bad(),
                }
            } else {
                bad()
            }
        }
        out
    })
}

pub fn describe(id: &str) -> String {
    load()
        .iter()
        .find(|f| f.id == id)
        .map(|f| f.what.clone())
        .unwrap_or_else(|| id.to_string())
}

/// Returns the id of the `known` finding whose matcher accepts this very case.
pub fn match_known(v: &Violation) -> Option<String> {
    for f in load() {
        if f.status != "known" || f.property != v.property {
            continue;
        }
        if run_matcher(&f.matcher, v) {
            return Some(f.id.clone());
        }
    }
    None
}

/// `inf`, `infinity`, `nan` in any ASCII case.
pub fn is_inf_nan_word(w: &str) -> bool {
    let l = w.to_ascii_lowercase();
    l == "inf" || l == "infinity" || l == "nan"
}

fn run_matcher(name: &str, v: &Violation) -> bool {
    match name {
        // C06: the input word (field "word") is one of the float spellings `inf`/`infinity`/`nan` in any
        // ASCII case and the check expected an identifier.
        "word_is_ascii_case_insensitive_inf_infinity_nan" => {
            if v.kind == "word-class" {
                return v.input["word"].as_str().map(is_inf_nan_word).unwrap_or(false) && v.expected.starts_with("identifier");
            }
            // token-stream comparisons: every mismatching leaf is such a word read as the float it spells
            match v.input["leaf_mismatches"].as_array() {
                Some(ms) if !ms.is_empty() => ms.iter().all(|m| {
                    let want = m[0].as_str().unwrap_or("");
                    let got = m[1].as_str().unwrap_or("");
                    match want.strip_prefix("ident:") {
                        Some(w) if is_inf_nan_word(w) => {
                            let l = w.to_ascii_lowercase();
                            if l == "nan" {
                                got == "Fnan"
                            } else {
                                got.starts_with("Finf#")
                            }
                        },
                        _ => false,
                    }
                }),
                _ => false,
            }
        },
        _ => false,
    }
}
