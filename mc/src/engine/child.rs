//! Child-process isolation (filled in with C01).
