//! Shared machinery: run configuration, panic capture, statistics, violation reports,
//! known findings, evidence files.

pub mod child;
pub mod findings;
pub mod sched;

use serde_json::{json, Value as J};
use std::cell::RefCell;
use std::collections::{BTreeMap, BTreeSet};
use std::panic::{catch_unwind, AssertUnwindSafe};
use std::path::PathBuf;
use std::time::Instant;

pub const VERIF_DIR: &str = "/verif";

#[derive(Clone, Copy, PartialEq, Eq, Debug)]
pub enum Tier {
    Quick,
    Thorough,
}

impl Tier {
    pub fn name(self) -> &'static str {
        match self {
            Tier::Quick => "quick",
            Tier::Thorough => "thorough",
        }
    }
    pub fn pick<T>(self, quick: T, thorough: T) -> T {
        match self {
            Tier::Quick => quick,
            Tier::Thorough => thorough,
        }
    }
}

/// Run configuration of one check invocation.
#[derive(Clone, Debug)]
pub struct Cfg {
    pub tier: Tier,
    pub seed: u64,
    /// Which build profile this binary was built with, as verified at start-up.
    pub overflow_checks: bool,
    /// If set, this process is a secondary-profile run: write a partial result here and no evidence file.
    pub part_out: Option<PathBuf>,
    /// Partial results of secondary-profile runs to merge into the evidence.
    pub merge_parts: Vec<PathBuf>,
    pub start: Instant,
}

// ---------------------------------------------------------------------------------------------
// Panic capture

#[derive(Clone, Debug, PartialEq, Eq, PartialOrd, Ord)]
pub struct PanicInfo {
    pub location: String,
    pub message: String,
}

thread_local! {
    static LAST_PANIC: RefCell<Option<PanicInfo>> = const { RefCell::new(None) };
    static QUIET: RefCell<bool> = const { RefCell::new(false) };
}

/// Installs a hook that records panics raised inside `guarded` silently and prints all others.
pub fn install_panic_hook() {
    let default = std::panic::take_hook();
    std::panic::set_hook(Box::new(move |info| {
        let quiet = QUIET.with(|q| *q.borrow());
        if quiet {
            let location = info
                .location()
                .map(|l| format!("{}:{}", l.file(), l.line()))
                .unwrap_or_else(|| "<unknown>".into());
            let message = if let Some(s) = info.payload().downcast_ref::<&str>() {
                s.to_string()
            } else if let Some(s) = info.payload().downcast_ref::<String>() {
                s.clone()
            } else {
                "<non-string panic payload>".into()
            };
            LAST_PANIC.with(|p| *p.borrow_mut() = Some(PanicInfo { location, message }));
        } else {
            default(info);
        }
    }));
}

/// Runs `f`; an unwind out of it is returned as `Err` with the recorded location and message.
pub fn guarded<R>(f: impl FnOnce() -> R) -> Result<R, PanicInfo> {
    let was = QUIET.with(|q| std::mem::replace(&mut *q.borrow_mut(), true));
    let r = catch_unwind(AssertUnwindSafe(f));
    QUIET.with(|q| *q.borrow_mut() = was);
    match r {
        Ok(v) => Ok(v),
        Err(_) => Err(LAST_PANIC.with(|p| p.borrow_mut().take()).unwrap_or(PanicInfo {
            location: "<unknown>".into(),
            message: "<unwind without hook record>".into(),
        })),
    }
}

// ---------------------------------------------------------------------------------------------
// Violations

#[derive(Clone, Debug)]
pub struct Violation {
    pub property: &'static str,
    /// Short machine-readable class of the failing case, e.g. "tree-mismatch", "panic".
    pub kind: String,
    /// The concrete case: everything needed to re-execute it (see the per-property replay functions).
    pub input: J,
    pub expected: String,
    pub actual: String,
    /// A ready-to-paste unit test using only plain evalexpr calls.
    pub test: String,
}

impl Violation {
    pub fn to_json(&self) -> J {
        json!({
            "property": self.property,
            "kind": self.kind,
            "input": self.input,
            "expected": self.expected,
            "actual": self.actual,
            "unit_test": self.test,
        })
    }
}

// ---------------------------------------------------------------------------------------------
// Statistics that are merged across worker threads

#[derive(Default, Debug)]
pub struct Stats {
    /// subject executions
    pub evaluations: u64,
    /// model-checking style counters
    pub states: u64,
    pub transitions: u64,
    /// named counters (outcome classes, per-level counts, ...)
    pub counters: BTreeMap<String, u64>,
    /// hashed keys of distinct non-trivial cases / distinct outcomes (by set name)
    pub distinct: BTreeMap<String, BTreeSet<u64>>,
    pub samples: Vec<J>,
    pub violations: Vec<Violation>,
    pub violations_total: u64,
    pub known_matched: BTreeMap<String, u64>,
    pub known_example: BTreeMap<String, String>,
    pub caps_hit: Vec<String>,
}

pub const MAX_VIOLATIONS_KEPT: usize = 12;
pub const MAX_SAMPLES: usize = 12;

pub fn hash_of<T: std::hash::Hash>(t: &T) -> u64 {
    use std::hash::Hasher;
    // Fixed-key hasher so that counts of distinct keys are reproducible between runs.
    let mut h = std::collections::hash_map::DefaultHasher::new();
    t.hash(&mut h);
    h.finish()
}

impl Stats {
    pub fn new() -> Self {
        Self::default()
    }
    pub fn count(&mut self, name: &str) {
        self.add(name, 1)
    }
    pub fn add(&mut self, name: &str, n: u64) {
        if let Some(c) = self.counters.get_mut(name) {
            *c += n;
        } else {
            self.counters.insert(name.to_string(), n);
        }
    }
    pub fn get(&self, name: &str) -> u64 {
        self.counters.get(name).copied().unwrap_or(0)
    }
    pub fn distinct<T: std::hash::Hash>(&mut self, set: &str, key: &T) {
        let h = hash_of(key);
        if let Some(s) = self.distinct.get_mut(set) {
            s.insert(h);
        } else {
            self.distinct.insert(set.to_string(), BTreeSet::from([h]));
        }
    }
    pub fn distinct_len(&self, set: &str) -> u64 {
        self.distinct.get(set).map(|s| s.len() as u64).unwrap_or(0)
    }
    pub fn sample(&mut self, j: J) {
        if self.samples.len() < MAX_SAMPLES {
            self.samples.push(j);
        }
    }
    /// Records a violation unless a `known` finding matches this very case.
    pub fn violation(&mut self, v: Violation) {
        if let Some(id) = findings::match_known(&v) {
            *self.known_matched.entry(id.clone()).or_insert(0) += 1;
            self.known_example
                .entry(id)
                .or_insert_with(|| format!("{} {}", v.kind, v.input));
            return;
        }
        self.violations_total += 1;
        self.keep(v);
    }
    /// Keeps the smallest violating cases (by size of the concrete input), so that the reported
    /// counterexamples are shortest ones whatever the enumeration and merge order.
    fn keep(&mut self, v: Violation) {
        let size = |v: &Violation| v.input.to_string().len();
        if self.violations.len() < MAX_VIOLATIONS_KEPT {
            self.violations.push(v);
        } else if let Some((i, _)) = self
            .violations
            .iter()
            .enumerate()
            .max_by_key(|(_, w)| size(w))
            .filter(|(_, w)| size(w) > size(&v))
        {
            self.violations[i] = v;
        }
    }
    pub fn merge(&mut self, o: Stats) {
        self.evaluations += o.evaluations;
        self.states += o.states;
        self.transitions += o.transitions;
        for (k, v) in o.counters {
            *self.counters.entry(k).or_insert(0) += v;
        }
        for (k, v) in o.distinct {
            self.distinct.entry(k).or_default().extend(v);
        }
        for s in o.samples {
            self.sample(s);
        }
        self.violations_total += o.violations_total;
        for v in o.violations {
            self.keep(v);
        }
        self.violations.sort_by_key(|v| v.input.to_string().len());
        for (k, v) in o.known_matched {
            *self.known_matched.entry(k).or_insert(0) += v;
        }
        for (k, v) in o.known_example {
            self.known_example.entry(k).or_insert(v);
        }
        self.caps_hit.extend(o.caps_hit);
    }
}

/// Splits `0..n` into chunks, runs `f(chunk_index_range)` on the rayon pool and merges the results in
/// index order, so that every count is independent of the number of worker threads.
pub fn par_chunks(n: u64, chunk: u64, f: impl Fn(std::ops::Range<u64>) -> Stats + Sync) -> Stats {
    use rayon::prelude::*;
    let chunk = chunk.max(1);
    let ranges: Vec<std::ops::Range<u64>> = (0..n.div_ceil(chunk))
        .map(|i| (i * chunk)..((i + 1) * chunk).min(n))
        .collect();
    let parts: Vec<Stats> = ranges.into_par_iter().map(|r| f(r)).collect();
    let mut total = Stats::new();
    for p in parts {
        total.merge(p);
    }
    total
}

/// Same for an explicit list of work items.
pub fn par_items<T: Sync>(items: &[T], f: impl Fn(usize, &T) -> Stats + Sync) -> Stats {
    use rayon::prelude::*;
    let parts: Vec<Stats> = items.par_iter().enumerate().map(|(i, t)| f(i, t)).collect();
    let mut total = Stats::new();
    for p in parts {
        total.merge(p);
    }
    total
}

// ---------------------------------------------------------------------------------------------
// Result of a check and evidence writing

pub struct Report {
    pub property: &'static str,
    /// "model_checking" | "exploration"
    pub level: &'static str,
    pub rule: String,
    /// name of the `distinct` set that counts distinct non-trivial cases
    pub nontrivial_set: &'static str,
    pub exhaustive: bool,
    pub bound_completed: String,
    pub assumptions: Vec<String>,
    pub stats: Stats,
    /// vacuity guards: (description, satisfied)
    pub guards: Vec<(String, bool)>,
    pub extra: J,
}

pub const EXIT_OK: i32 = 0;
pub const EXIT_VIOLATION: i32 = 1;
pub const EXIT_MACHINERY: i32 = 2;

pub fn machinery_error(msg: &str) -> ! {
    println!("MACHINERY-ERROR {}", msg);
    std::process::exit(EXIT_MACHINERY)
}

/// `set` names a distinct-set, or `counter:<name>` when the enumeration yields every case exactly once
/// (then the counter already counts distinct cases and no hash set is kept).
pub fn nontrivial_count(s: &Stats, set: &str) -> u64 {
    match set.strip_prefix("counter:") {
        Some(c) => s.get(c),
        None => s.distinct_len(set),
    }
}

fn stats_to_json(s: &Stats, nontrivial_set: &str) -> J {
    let distinct: BTreeMap<String, u64> = s
        .distinct
        .iter()
        .map(|(k, v)| (k.clone(), v.len() as u64))
        .collect();
    json!({
        "evaluations": s.evaluations,
        "states": s.states,
        "transitions": s.transitions,
        "distinct_nontrivial": nontrivial_count(s, nontrivial_set),
        "counters": s.counters,
        "distinct_sets": distinct,
        "violations_total": s.violations_total,
        "known_matched": s.known_matched,
        "caps_hit": s.caps_hit,
    })
}

/// Writes violation replay files, the evidence file (or the partial result) and returns the exit code.
pub fn finish(cfg: &Cfg, mut rep: Report) -> i32 {
    let id = rep.property;
    let wall = cfg.start.elapsed().as_secs_f64();

    // failed vacuity guards are machinery errors: a harness that collided with nothing is not evidence
    let failed: Vec<&String> = rep.guards.iter().filter(|g| !g.1).map(|g| &g.0).collect();
    let guards_ok = failed.is_empty();

    // secondary-profile run: dump partial result
    if let Some(path) = &cfg.part_out {
        let part = json!({
            "overflow_checks": cfg.overflow_checks,
            "stats": stats_to_json(&rep.stats, rep.nontrivial_set),
            "violations": rep.stats.violations.iter().map(|v| v.to_json()).collect::<Vec<_>>(),
            "known_example": rep.stats.known_example,
            "guards_failed": failed,
            "wall_s": wall,
        });
        if let Some(dir) = path.parent() {
            let _ = std::fs::create_dir_all(dir);
        }
        std::fs::write(path, serde_json::to_string_pretty(&part).unwrap())
            .unwrap_or_else(|e| machinery_error(&format!("cannot write part {}: {e}", path.display())));
        if !guards_ok {
            machinery_error(&format!("vacuity guard(s) not reached in secondary profile: {:?}", failed));
        }
        return EXIT_OK;
    }

    // merge partial results of the other profile(s)
    let mut parts_json = Vec::new();
    let mut extra_violations: Vec<J> = Vec::new();
    let mut part_evaluations = 0u64;
    let mut part_known: BTreeMap<String, u64> = BTreeMap::new();
    let mut part_known_example: BTreeMap<String, String> = BTreeMap::new();
    for p in &cfg.merge_parts {
        let text = std::fs::read_to_string(p)
            .unwrap_or_else(|e| machinery_error(&format!("cannot read part {}: {e}", p.display())));
        let j: J = serde_json::from_str(&text)
            .unwrap_or_else(|e| machinery_error(&format!("bad part {}: {e}", p.display())));
        part_evaluations += j["stats"]["evaluations"].as_u64().unwrap_or(0);
        if let Some(vs) = j["violations"].as_array() {
            extra_violations.extend(vs.iter().cloned());
        }
        if let Some(m) = j["stats"]["known_matched"].as_object() {
            for (k, v) in m {
                *part_known.entry(k.clone()).or_insert(0) += v.as_u64().unwrap_or(0);
            }
        }
        if let Some(m) = j["known_example"].as_object() {
            for (k, v) in m {
                part_known_example
                    .entry(k.clone())
                    .or_insert(v.as_str().unwrap_or("").to_string());
            }
        }
        parts_json.push(j);
    }

    // replay files
    let replay_dir = PathBuf::from(VERIF_DIR).join("replays").join(id);
    let _ = std::fs::remove_dir_all(&replay_dir);
    let mut lines = Vec::new();
    let all_violations: Vec<J> = rep
        .stats
        .violations
        .iter()
        .map(|v| v.to_json())
        .chain(extra_violations.iter().cloned())
        .collect();
    if !all_violations.is_empty() {
        std::fs::create_dir_all(&replay_dir)
            .unwrap_or_else(|e| machinery_error(&format!("cannot create {}: {e}", replay_dir.display())));
        for (i, v) in all_violations.iter().enumerate() {
            let path = replay_dir.join(format!("{:03}.json", i));
            std::fs::write(&path, serde_json::to_string_pretty(v).unwrap())
                .unwrap_or_else(|e| machinery_error(&format!("cannot write {}: {e}", path.display())));
            lines.push(format!("VIOLATION property={} replay={}", id, path.display()));
        }
    }

    // known findings
    let mut known = rep.stats.known_matched.clone();
    for (k, v) in part_known {
        *known.entry(k).or_insert(0) += v;
    }
    let mut known_example = rep.stats.known_example.clone();
    for (k, v) in part_known_example {
        known_example.entry(k).or_insert(v);
    }
    for (fid, n) in &known {
        let what = findings::describe(fid);
        println!(
            "KNOWN-FINDING: property={} {} [{}; {} matching case(s) in this run, e.g. {}]",
            id,
            what,
            fid,
            n,
            known_example.get(fid).map(|s| s.as_str()).unwrap_or("")
        );
    }

    let nviol = all_violations.len() as u64;
    let total_viol = rep.stats.violations_total
        + parts_json
            .iter()
            .map(|j| j["stats"]["violations_total"].as_u64().unwrap_or(0))
            .sum::<u64>();

    // evidence
    let mut samples = std::mem::take(&mut rep.stats.samples);
    if samples.is_empty() {
        samples.push(json!("<no sample recorded>"));
    }
    // VERIF_SEED only rotates which covered cases are shown
    if !samples.is_empty() {
        let k = (cfg.seed as usize) % samples.len();
        samples.rotate_left(k);
    }
    let distinct: BTreeMap<String, u64> = rep
        .stats
        .distinct
        .iter()
        .map(|(k, v)| (k.clone(), v.len() as u64))
        .collect();
    let evaluations = rep.stats.evaluations + part_evaluations;
    let mut coverage = json!({
        "evaluations": evaluations,
        "distinct_nontrivial": nontrivial_count(&rep.stats, rep.nontrivial_set),
        "rule": rep.rule,
        "samples": samples,
        "exhaustive": rep.exhaustive && rep.stats.caps_hit.is_empty(),
        "bound_completed": rep.bound_completed,
        "counters": rep.stats.counters,
        "distinct_sets": distinct,
        "caps_hit": rep.stats.caps_hit,
        "known_findings_matched": known,
        "vacuity_guards": rep.guards.iter().map(|(d, ok)| json!({"guard": d, "reached": ok})).collect::<Vec<_>>(),
        "primary_profile": {"overflow_checks": cfg.overflow_checks, "evaluations": rep.stats.evaluations},
        "secondary_profiles": parts_json,
        "extra": rep.extra,
    });
    if rep.level == "model_checking" {
        coverage["states"] = json!(rep.stats.states);
        coverage["transitions"] = json!(rep.stats.transitions);
        // every transition is executed on the implementation itself: there is no separate model trace
        coverage["traces_validated_against_impl"] = json!(rep.stats.transitions);
    }
    let evidence = json!({
        "property_id": id,
        "tier": cfg.tier.name(),
        "seed": cfg.seed,
        "level": rep.level,
        "coverage": coverage,
        "assumptions": rep.assumptions,
        "wall_s": wall,
        "violations": total_viol,
    });
    let ev_dir = PathBuf::from(VERIF_DIR).join("evidence");
    let _ = std::fs::create_dir_all(&ev_dir);
    let ev_path = ev_dir.join(format!("{}.json", id));
    std::fs::write(&ev_path, serde_json::to_string_pretty(&evidence).unwrap())
        .unwrap_or_else(|e| machinery_error(&format!("cannot write {}: {e}", ev_path.display())));

    println!(
        "{} {}: evaluations={} states={} transitions={} distinct_nontrivial={} violations={} (reported {}) wall={:.1}s",
        id,
        cfg.tier.name(),
        evaluations,
        rep.stats.states,
        rep.stats.transitions,
        nontrivial_count(&rep.stats, rep.nontrivial_set),
        total_viol,
        nviol,
        wall
    );
    for l in &lines {
        println!("{}", l);
    }
    if nviol > 0 {
        return EXIT_VIOLATION;
    }
    if !guards_ok {
        machinery_error(&format!("vacuity guard(s) not reached: {:?}", failed));
    }
    for j in &parts_json {
        if j["guards_failed"].as_array().map(|a| !a.is_empty()).unwrap_or(false) {
            machinery_error("vacuity guard(s) not reached in a secondary profile");
        }
    }
    EXIT_OK
}

/// True iff arithmetic overflow panics in this build (the profile's `overflow-checks`), measured.
pub fn measure_overflow_checks() -> bool {
    let x = std::hint::black_box(i32::MAX);
    guarded(|| {
        #[allow(arithmetic_overflow)]
        let y = x + std::hint::black_box(1);
        std::hint::black_box(y);
    })
    .is_err()
}
