//! Deviation-bounded schedule explorer over real OS threads (filled in with C15).
