//! Deviation-bounded schedule explorer over real OS threads (C15).
//!
//! N worker threads run under a baton: exactly one runs between scheduling points. A scheduling
//! point is reached when a thread starts, calls `yield_point` (from harness-owned user functions
//! inside evalexpr evaluation) or finishes. At each point the next thread is chosen among the
//! enabled ones in canonical order (the running thread first if still enabled, then ascending ids);
//! a schedule is the list of chosen indices. Exploration is depth-first over choice prefixes with a
//! preemption bound; every execution runs to completion.

use std::cell::Cell;
use std::sync::{Arc, Condvar, Mutex};
use std::time::{Duration, Instant};

thread_local! {
    static TID: Cell<usize> = const { Cell::new(usize::MAX) };
    static CUR: std::cell::RefCell<Option<Arc<Sched>>> = const { std::cell::RefCell::new(None) };
}

/// Scheduling point for code that has no handle on the scheduler (user functions stored in a shared
/// context): yields if the calling thread is a scheduled worker, otherwise does nothing.
pub fn yield_now() {
    let s = CUR.with(|c| c.borrow().clone());
    if let Some(s) = s {
        s.yield_point();
    }
}

/// Records an event in the execution's global (cross-thread) event order.
pub fn note_event(e: String) {
    let s = CUR.with(|c| c.borrow().clone());
    if let Some(s) = s {
        let me = current_tid();
        s.m.lock().unwrap().events.push((me, e));
    }
}

pub fn current_tid() -> usize {
    TID.with(|t| t.get())
}

#[derive(Clone, Copy, PartialEq, Eq, Debug)]
enum Status {
    NotStarted,
    /// waiting at a scheduling point
    Ready,
    /// holds the baton
    Running,
    Finished,
    /// did not reach a scheduling point within the watchdog interval while holding the baton
    Blocked,
}

#[derive(Clone, Debug)]
pub struct Point {
    pub enabled: usize,
    pub chosen: usize,
    /// the thread that reached this point could have continued (choosing another one is a preemption)
    pub running_still_enabled: bool,
}

struct State {
    status: Vec<Status>,
    prefix: Vec<usize>,
    points: Vec<Point>,
    /// order in which threads were given the baton
    order: Vec<usize>,
    events: Vec<(usize, String)>,
    last_progress: Instant,
    degraded: bool,
    divergence: Option<String>,
}

pub struct Sched {
    m: Mutex<State>,
    cv: Condvar,
    n: usize,
}

// Long enough that a merely descheduled thread on a loaded machine is never mistaken for a blocked one.
const WATCHDOG: Duration = Duration::from_millis(3000);

impl Sched {
    pub fn new(n: usize, prefix: Vec<usize>) -> Arc<Sched> {
        Arc::new(Sched {
            m: Mutex::new(State {
                status: vec![Status::NotStarted; n],
                prefix,
                points: Vec::new(),
                order: Vec::new(),
                events: Vec::new(),
                last_progress: Instant::now(),
                degraded: false,
                divergence: None,
            }),
            cv: Condvar::new(),
            n,
        })
    }

    /// Chooses the next thread to run. `me` reached a point; `me_enabled` tells whether it could go on.
    fn choose(&self, st: &mut State, me: Option<usize>, me_enabled: bool) {
        let mut enabled: Vec<usize> = Vec::new();
        if let (Some(m), true) = (me, me_enabled) {
            enabled.push(m);
        }
        for t in 0..self.n {
            if Some(t) != me && st.status[t] == Status::Ready {
                enabled.push(t);
            }
        }
        if enabled.is_empty() {
            return;
        }
        let pos = st.points.len();
        let choice = if pos < st.prefix.len() {
            let c = st.prefix[pos];
            if c >= enabled.len() {
                st.divergence = Some(format!("replayed choice {} at point {} but only {} thread(s) enabled", c, pos, enabled.len()));
                0
            } else {
                c
            }
        } else {
            0
        };
        st.points.push(Point {
            enabled: enabled.len(),
            chosen: choice,
            running_still_enabled: me_enabled && me.is_some(),
        });
        let next = enabled[choice];
        st.status[next] = Status::Running;
        st.order.push(next);
        st.last_progress = Instant::now();
    }

    fn wait_for_baton(&self, mut st: std::sync::MutexGuard<'_, State>, me: usize) {
        loop {
            if st.status[me] == Status::Running {
                return;
            }
            let (g, _) = self.cv.wait_timeout(st, Duration::from_millis(50)).unwrap();
            st = g;
            if st.status[me] == Status::Running {
                return;
            }
            // watchdog: the baton holder is stuck outside our scheduling points (e.g. on a foreign lock
            // held by a waiting thread); mark it blocked and let the lowest ready thread go on
            if st.last_progress.elapsed() > WATCHDOG {
                let holder = (0..self.n).find(|t| st.status[*t] == Status::Running);
                let lowest_ready = (0..self.n).find(|t| st.status[*t] == Status::Ready);
                if lowest_ready == Some(me) {
                    if let Some(h) = holder {
                        st.status[h] = Status::Blocked;
                    }
                    st.degraded = true;
                    st.status[me] = Status::Running;
                    st.order.push(me);
                    st.last_progress = Instant::now();
                    return;
                }
            }
        }
    }

    /// Called by a worker thread first thing.
    pub fn start(self: &Arc<Self>, me: usize) {
        TID.with(|t| t.set(me));
        CUR.with(|c| *c.borrow_mut() = Some(self.clone()));
        let mut st = self.m.lock().unwrap();
        st.status[me] = Status::Ready;
        self.cv.notify_all();
        self.wait_for_baton(st, me);
    }

    /// A scheduling point inside the thread's work.
    pub fn yield_point(&self) {
        let me = current_tid();
        if me == usize::MAX {
            return; // not a scheduled thread (sequential reference run)
        }
        let mut st = self.m.lock().unwrap();
        if st.status[me] == Status::Blocked {
            // we were given up on by the watchdog: rejoin as an ordinary ready thread
            st.status[me] = Status::Ready;
            self.cv.notify_all();
            self.wait_for_baton(st, me);
            return;
        }
        st.status[me] = Status::Ready;
        self.choose(&mut st, Some(me), true);
        self.cv.notify_all();
        self.wait_for_baton(st, me);
    }

    /// Called by a worker thread when its body is done.
    pub fn finish(&self, me: usize) {
        let mut st = self.m.lock().unwrap();
        let was_blocked = st.status[me] == Status::Blocked;
        st.status[me] = Status::Finished;
        if !was_blocked {
            self.choose(&mut st, Some(me), false);
        }
        self.cv.notify_all();
    }

    /// Controller: waits until all threads are at their start point, then makes the first choice.
    pub fn release(&self) {
        let mut st = self.m.lock().unwrap();
        while st.status.iter().any(|s| *s == Status::NotStarted) {
            st = self.cv.wait(st).unwrap();
        }
        self.choose(&mut st, None, false);
        self.cv.notify_all();
    }
}

#[derive(Clone, Debug)]
pub struct Execution<R> {
    pub choices: Vec<usize>,
    pub points: Vec<Point>,
    pub order: Vec<usize>,
    pub events: Vec<(usize, String)>,
    pub results: Vec<R>,
    pub degraded: bool,
    pub divergence: Option<String>,
}

/// Runs one execution of `n` threads under the given choice prefix. `body(tid, sched)` is the work
/// of thread `tid`; it must call `sched.yield_point()` (directly or through user functions).
pub fn run_once<R: Send + 'static>(
    n: usize,
    prefix: &[usize],
    body: Arc<dyn Fn(usize, &Arc<Sched>) -> R + Send + Sync>,
) -> Execution<R> {
    let sched = Sched::new(n, prefix.to_vec());
    let mut handles = Vec::new();
    for tid in 0..n {
        let s = sched.clone();
        let b = body.clone();
        handles.push(std::thread::spawn(move || {
            s.start(tid);
            let r = std::panic::catch_unwind(std::panic::AssertUnwindSafe(|| b(tid, &s)));
            s.finish(tid);
            r
        }));
    }
    sched.release();
    let mut results = Vec::new();
    let mut panicked = None;
    for (i, h) in handles.into_iter().enumerate() {
        match h.join() {
            Ok(Ok(r)) => results.push(r),
            _ => panicked = Some(i),
        }
    }
    let st = sched.m.lock().unwrap();
    Execution {
        choices: st.points.iter().map(|p| p.chosen).collect(),
        points: st.points.clone(),
        order: st.order.clone(),
        events: st.events.clone(),
        results,
        degraded: st.degraded,
        divergence: st.divergence.clone().or(panicked.map(|i| format!("thread {} panicked", i))),
    }
}

/// Depth-first exploration of all schedules with at most `bound` preemptions (None = unbounded).
/// `visit` is called with every complete execution; returns the number of executions.
pub fn explore<R: Send + Clone + 'static>(
    n: usize,
    bound: Option<usize>,
    cap: u64,
    make_body: &dyn Fn() -> Arc<dyn Fn(usize, &Arc<Sched>) -> R + Send + Sync>,
    visit: &mut dyn FnMut(&Execution<R>),
) -> (u64, bool) {
    let mut count = 0u64;
    let mut capped = false;
    let mut stack: Vec<Vec<usize>> = vec![vec![]];
    while let Some(prefix) = stack.pop() {
        if count >= cap {
            capped = true;
            break;
        }
        // every execution gets freshly built shared objects, so that nothing leaks between executions
        let x = run_once(n, &prefix, make_body());
        count += 1;
        visit(&x);
        if x.divergence.is_some() {
            continue;
        }
        // preemptions made by the choices before point i
        let mut pre = vec![0usize; x.points.len() + 1];
        for (i, p) in x.points.iter().enumerate() {
            pre[i + 1] = pre[i] + (p.running_still_enabled && p.chosen != 0) as usize;
        }
        for i in (prefix.len()..x.points.len()).rev() {
            let p = &x.points[i];
            for alt in 1..p.enabled {
                let cost = pre[i] + p.running_still_enabled as usize;
                if let Some(b) = bound {
                    if cost > b {
                        continue;
                    }
                }
                let mut np: Vec<usize> = x.choices[..i].to_vec();
                np.push(alt);
                stack.push(np);
            }
        }
    }
    (count, capped)
}
