//! evx-mc — bounded exhaustive checking of evalexpr against reference models.
//! Usage: evx-mc <ID> <quick|thorough> [--part-out <path>] [--merge-part <path>]...
//!        evx-mc <ID> --replay <path>
//!        evx-mc eval <expr>...        (debug helper)

mod engine;
mod props;
mod refmodel;

use engine::*;

fn main() {
    let args: Vec<String> = std::env::args().skip(1).collect();
    if args.is_empty() {
        machinery_error("usage: evx-mc <ID> <quick|thorough> | <ID> --replay <path>");
    }
    install_panic_hook();
    if args[0] == "eval" {
        for s in &args[1..] {
            println!(
                "{s:?} => {:?} | tree {:?}",
                evalexpr::eval(s),
                evalexpr::build_operator_tree::<evalexpr::DefaultNumericTypes>(s).map(|t| t.to_string())
            );
        }
        return;
    }
    if args[0] == "selftest" {
        std::process::exit(props::selftest::run());
    }
    // child-process entry points (C01)
    if args[0] == "--child" {
        std::process::exit(props::child_main(&args[1..]));
    }
    let id = args[0].as_str();
    if args.get(1).map(|s| s.as_str()) == Some("--replay") {
        let path = args.get(2).unwrap_or_else(|| machinery_error("--replay needs a path"));
        let text = std::fs::read_to_string(path).unwrap_or_else(|e| machinery_error(&format!("cannot read {path}: {e}")));
        let case: serde_json::Value = serde_json::from_str(&text).unwrap_or_else(|e| machinery_error(&format!("bad replay file: {e}")));
        match props::replay(id, &case) {
            Some(code) => std::process::exit(code),
            None => machinery_error(&format!("unknown property {id}")),
        }
    }
    let tier = match args.get(1).map(|s| s.as_str()) {
        Some("quick") => Tier::Quick,
        Some("thorough") => Tier::Thorough,
        _ => machinery_error("tier must be quick or thorough"),
    };
    let mut part_out = None;
    let mut merge_parts = Vec::new();
    let mut i = 2;
    while i < args.len() {
        match args[i].as_str() {
            "--part-out" => {
                part_out = Some(std::path::PathBuf::from(&args[i + 1]));
                i += 2;
            },
            "--merge-part" => {
                merge_parts.push(std::path::PathBuf::from(&args[i + 1]));
                i += 2;
            },
            other => machinery_error(&format!("unknown argument {other}")),
        }
    }
    let seed = std::env::var("VERIF_SEED").ok().and_then(|s| s.parse::<u64>().ok()).unwrap_or(0);
    let cfg = Cfg {
        tier,
        seed,
        overflow_checks: measure_overflow_checks(),
        part_out,
        merge_parts,
        start: std::time::Instant::now(),
    };
    // the driver runs the `nochk` binary with --part-out and the `release` binary otherwise: verify it
    if cfg.part_out.is_some() == cfg.overflow_checks {
        machinery_error(&format!(
            "profile mismatch: overflow checks measured {} but this is the {} run",
            cfg.overflow_checks,
            if cfg.part_out.is_some() { "secondary (nochk)" } else { "primary" }
        ));
    }
    if let Ok(n) = std::env::var("EVX_THREADS") {
        if let Ok(n) = n.parse::<usize>() {
            rayon::ThreadPoolBuilder::new().num_threads(n).build_global().ok();
        }
    }
    // run the check itself under catch_unwind: an engine crash is a machinery error, never a verdict
    let rep = match guarded(|| props::run(id, &cfg)) {
        Ok(Some(r)) => r,
        Ok(None) => machinery_error(&format!("unknown property {id}")),
        Err(p) => machinery_error(&format!("engine panicked at {}: {}", p.location, p.message)),
    };
    std::process::exit(finish(&cfg, rep));
}
