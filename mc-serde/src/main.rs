//! evx-mc-serde — C16: serde support round-trips expressions and contexts.
//! Separate crate: built with the repository's pinned toolchain (the only one whose offline registry
//! has `ron`) and evalexpr's `serde` feature. Self-contained (no serde_json here): evidence and replay
//! files are written with a small hand-rolled JSON emitter.
//!
//! Usage: evx-mc-serde C16 <quick|thorough> | C16 --replay <path>

use evalexpr::{
    build_operator_tree, Context, ContextWithMutableFunctions, ContextWithMutableVariables, DefaultNumericTypes, EvalexprError,
    Function, HashMapContext, IterateVariablesContext, Node, Value,
};
use std::collections::BTreeMap;
use std::panic::{catch_unwind, AssertUnwindSafe};
use std::time::Instant;

type HCtx = HashMapContext<DefaultNumericTypes>;
type EV = Value<DefaultNumericTypes>;

fn esc(s: &str) -> String {
    let mut o = String::with_capacity(s.len() + 2);
    o.push('"');
    for c in s.chars() {
        match c {
            '"' => o.push_str("\\\""),
            '\\' => o.push_str("\\\\"),
            '\n' => o.push_str("\\n"),
            '\r' => o.push_str("\\r"),
            '\t' => o.push_str("\\t"),
            c if (c as u32) < 0x20 => o.push_str(&format!("\\u{:04x}", c as u32)),
            c => o.push(c),
        }
    }
    o.push('"');
    o
}

fn vkey(v: &EV) -> String {
    match v {
        Value::String(s) => format!("S{:?}", s),
        Value::Float(f) => {
            if f.is_nan() {
                "Fnan".into()
            } else {
                format!("F{:?}#{:016x}", f, f.to_bits())
            }
        },
        Value::Int(i) => format!("I{}", i),
        Value::Boolean(b) => format!("B{}", b),
        Value::Tuple(t) => format!("T[{}]", t.iter().map(vkey).collect::<Vec<_>>().join(",")),
        Value::Empty => "E".into(),
    }
}

fn observe(c: &HCtx) -> Vec<(String, String)> {
    let mut v: Vec<(String, String)> = c.iter_variables().map(|(n, v)| (n, vkey(&v))).collect();
    v.sort();
    v
}

struct Viol {
    kind: String,
    input: String, // JSON object text
    expected: String,
    actual: String,
}

#[derive(Default)]
struct Stats {
    evaluations: u64,
    states: u64,
    transitions: u64,
    counters: BTreeMap<String, u64>,
    nontrivial: u64,
    violations: Vec<Viol>,
    violations_total: u64,
    samples: Vec<String>,
}

impl Stats {
    fn count(&mut self, k: &str) {
        *self.counters.entry(k.to_string()).or_insert(0) += 1;
    }
    fn violation(&mut self, v: Viol) {
        self.violations_total += 1;
        if self.violations.len() < 12 {
            self.violations.push(v);
        } else if let Some((i, _)) = self.violations.iter().enumerate().max_by_key(|(_, w)| w.input.len()).filter(|(_, w)| w.input.len() > v.input.len()) {
            self.violations[i] = v;
        }
    }
}

fn guarded<R>(f: impl FnOnce() -> R) -> Result<R, String> {
    catch_unwind(AssertUnwindSafe(f)).map_err(|_| "panic".to_string())
}

// ---------------------------------------------------------------------------------------------
// (a) expressions

fn check_expression(src: &str, st: &mut Stats) {
    st.evaluations += 1;
    let encoded = match ron::ser::to_string(&src) {
        Ok(e) => e,
        Err(_) => {
            st.count("a/ron-cannot-encode-string");
            return;
        },
    };
    // calibration: ron itself must give the string back, otherwise the case says nothing about evalexpr
    match ron::de::from_str::<String>(&encoded) {
        Ok(back) if back == src => {},
        _ => {
            st.count("a/skipped-ron-does-not-round-trip-the-string");
            return;
        },
    }
    let direct = match guarded(|| build_operator_tree::<DefaultNumericTypes>(src)) {
        Ok(d) => d,
        Err(_) => {
            // precompilation itself panics on this source: nothing to compare with (C01 reports it)
            st.count("a/skipped-precompilation-panics");
            return;
        },
    };
    let via = match guarded(|| ron::de::from_str::<Node<DefaultNumericTypes>>(&encoded)) {
        Ok(v) => v,
        Err(_) => {
            st.violation(Viol {
                kind: "panic".into(),
                input: format!("{{\"source\": {}, \"ron\": {}}}", esc(src), esc(&encoded)),
                expected: "Ok or Err".into(),
                actual: "panic while deserializing".into(),
            });
            return;
        },
    };
    st.count(if direct.is_ok() { "a/precompiles" } else { "a/rejected" });
    if src.len() >= 3 {
        st.nontrivial += 1;
    }
    let ok = match (&direct, &via) {
        // equal by the crate's own `PartialEq` and by the derived `Debug` rendering: neither alone defines "the same tree"
        (Ok(a), Ok(b)) => {
            a == b && format!("{:?}", a) == format!("{:?}", b) && format!("{}", a) == format!("{}", b) && {
                // and they behave alike: evaluated in the same small context, same result and same context afterwards
                let run = |t: &Node<DefaultNumericTypes>| {
                    let mut c = HashMapContext::<DefaultNumericTypes>::new();
                    let _ = c.set_value("a".into(), Value::Int(3));
                    let r = guarded(|| t.eval_with_context_mut(&mut c)).map(|r| format!("{:?}", r)).unwrap_or_else(|_| "panic".into());
                    (r, observe(&c))
                };
                run(a) == run(b)
            }
        },
        (Err(e), Err(se)) => se.code == ron::Error::Message(e.to_string()),
        _ => false,
    };
    if !ok {
        st.violation(Viol {
            kind: "node-deserialization-differs".into(),
            input: format!("{{\"source\": {}, \"ron\": {}}}", esc(src), esc(&encoded)),
            expected: match &direct {
                Ok(t) => format!("Ok({:?})", t),
                Err(e) => format!("Err with message {:?}", e.to_string()),
            },
            actual: format!("{:?}", via),
        });
    }
}

fn part_expressions(max_tokens: usize, max_chars: usize, st: &mut Stats) {
    let toks = ["1", "a", "+", "(", ")", ",", ";", "=", "\"s\"", "&", "2.5", "-", "!", "\"\\\\\\\"\""];
    fn go(cur: &mut Vec<&'static str>, toks: &[&'static str], max: usize, st: &mut Stats) {
        let src = cur.join(" ");
        check_expression(&src, st);
        st.states += 1;
        if cur.len() == max {
            return;
        }
        for t in toks {
            cur.push(t);
            st.transitions += 1;
            go(cur, toks, max, st);
            cur.pop();
        }
    }
    go(&mut vec![], &toks, max_tokens, st);
    // raw character strings that stress the RON string encoding around the expression text
    let chars = ['"', '\\', 'a', '1', '\n', ' ', 'ä', '😀', '/', '*', '\'', '\t', '-', '+', '.', 'e', 'x', '0', '(', ')', ',', ';', '=', '!', '&'];
    fn goc(cur: &mut String, len: usize, chars: &[char], max: usize, st: &mut Stats) {
        check_expression(cur, st);
        st.states += 1;
        if len == max {
            return;
        }
        for c in chars {
            cur.push(*c);
            st.transitions += 1;
            goc(cur, len + 1, chars, max, st);
            cur.pop();
        }
    }
    goc(&mut String::new(), 0, &chars, max_chars, st);
    for s in ["a = \"x\\\\y\"; a + \"\\\"\"", "math::ln(2.5e-3) // c\n+ 1", "/* unterminated", "(1, (2, \"😀\"))", "5==5"] {
        check_expression(s, st);
    }
}

// ---------------------------------------------------------------------------------------------
// (b) contexts

fn value_pool() -> Vec<EV> {
    let t = |v: Vec<EV>| Value::Tuple(v);
    vec![
        Value::Int(0),
        Value::Int(-1),
        Value::Int(i64::MAX),
        Value::Int(i64::MIN),
        Value::Int(i64::MAX - 1),
        Value::Int(i64::MIN + 1),
        Value::Int((1 << 53) + 1),
        Value::Int(-(1 << 53) - 1),
        Value::Int(1234567890123456789),
        Value::Int(999999999999999999),
        Value::Float(0.0),
        Value::Float(-0.0),
        Value::Float(1.5),
        Value::Float(0.1),
        Value::Float(5e-324),
        Value::Float(f64::MIN_POSITIVE),
        Value::Float(f64::MAX),
        Value::Float(1e300),
        Value::Float(-2.5e-7),
        Value::Float(f64::INFINITY),
        Value::Float(f64::NEG_INFINITY),
        Value::Float(f64::NAN),
        Value::Float(9007199254740993.0),
        Value::String(String::new()),
        Value::String("a\"b\\c".into()),
        Value::String("äb 😀\n".into()),
        Value::String("(1, 2)".into()),
        Value::Boolean(true),
        Value::Boolean(false),
        Value::Empty,
        t(vec![]),
        t(vec![Value::Int(1)]),
        t(vec![Value::Int(1), Value::Float(-0.0), Value::String("s".into()), Value::Empty]),
        t(vec![t(vec![t(vec![])]), Value::Boolean(true)]),
    ]
}

/// Floats that `ron` itself round-trips as bare f64 (isolates evalexpr from ron).
fn ron_round_trips_f64(f: f64) -> bool {
    match ron::ser::to_string(&f).ok().and_then(|s| ron::de::from_str::<f64>(&s).ok()) {
        Some(g) => g.to_bits() == f.to_bits() || (g.is_nan() && f.is_nan()),
        None => false,
    }
}

fn value_usable(v: &EV) -> bool {
    match v {
        Value::Float(f) => ron_round_trips_f64(*f),
        Value::Tuple(t) => t.iter().all(value_usable),
        _ => true,
    }
}

#[derive(Clone, Debug)]
enum Op {
    Set(usize, usize),
    ClearVariables,
    SetFunction,
    SetFunctionNamedLikeAVariable,
    Disable(bool),
    Assign(&'static str),
    /// replace the context by deserialize(serialize(context)): deserialized contexts are reachable
    /// states too, and the history goes on from them
    RoundTrip,
}

fn apply(c: &mut HCtx, op: &Op, pool: &[EV]) {
    let names = ["a", "A", "näme with space", ""];
    match op {
        Op::Set(n, v) => {
            let _ = c.set_value(names[*n].to_string(), pool[*v].clone());
        },
        Op::ClearVariables => c.clear_variables(),
        Op::SetFunction => {
            c.set_function("f".into(), Function::new(|a| Ok(a.clone()))).unwrap();
        },
        Op::SetFunctionNamedLikeAVariable => {
            // variables and functions are separate namespaces: `a` may be both
            c.set_function("a".into(), Function::new(|a| Ok(a.clone()))).unwrap();
        },
        Op::Disable(b) => {
            c.set_builtin_functions_disabled(*b).unwrap();
        },
        Op::Assign(src) => {
            let _ = evalexpr::eval_with_context_mut(src, c);
        },
        Op::RoundTrip => {
            // a failure here is reported by check_context on the state before this step
            if let Ok(text) = ron::ser::to_string(&*c) {
                if let Ok(back) = ron::de::from_str::<HCtx>(&text) {
                    *c = back;
                }
            }
        },
    }
}

fn check_context(c: &HCtx, history: &str, st: &mut Stats) {
    st.evaluations += 1;
    let input = format!("{{\"history\": {}}}", esc(history));
    let text = match guarded(|| ron::ser::to_string(c)) {
        Ok(Ok(t)) => t,
        Ok(Err(e)) => {
            st.violation(Viol {
                kind: "context-does-not-serialize".into(),
                input,
                expected: "serializes".into(),
                actual: format!("{:?}", e),
            });
            return;
        },
        Err(_) => {
            st.violation(Viol {
                kind: "panic".into(),
                input,
                expected: "Ok or Err".into(),
                actual: "panic while serializing".into(),
            });
            return;
        },
    };
    let back: HCtx = match guarded(|| ron::de::from_str::<HCtx>(&text)) {
        Ok(Ok(b)) => b,
        other => {
            st.violation(Viol {
                kind: "context-does-not-deserialize".into(),
                input: format!("{{\"history\": {}, \"ron\": {}}}", esc(history), esc(&text)),
                expected: "deserializes".into(),
                actual: format!("{:?}", other.map(|r| r.map(|_| ()))),
            });
            return;
        },
    };
    // the same through a second output configuration of the same format: pretty-printed, with struct names
    // written out (a Deserialize that expects another struct name than Serialize writes fails only here)
    let pretty = ron::ser::PrettyConfig::new().struct_names(true);
    match guarded(|| ron::ser::to_string_pretty(c, pretty.clone())) {
        Ok(Ok(ptext)) => match guarded(|| ron::de::from_str::<HCtx>(&ptext)) {
            Ok(Ok(b2)) => {
                st.evaluations += 1;
                st.count("b/contexts-round-tripped-with-struct-names");
                if observe(&b2) != observe(c) || b2.are_builtin_functions_disabled() != c.are_builtin_functions_disabled() {
                    st.violation(Viol {
                        kind: "context-round-trip-differs".into(),
                        input: format!("{{\"history\": {}, \"ron\": {}}}", esc(history), esc(&ptext)),
                        expected: format!("variables {:?}, builtins disabled {}", observe(c), c.are_builtin_functions_disabled()),
                        actual: format!("variables {:?}, builtins disabled {}", observe(&b2), b2.are_builtin_functions_disabled()),
                    });
                    return;
                }
            },
            other => {
                st.violation(Viol {
                    kind: "context-does-not-deserialize".into(),
                    input: format!("{{\"history\": {}, \"ron\": {}}}", esc(history), esc(&ptext)),
                    expected: "deserializes (pretty output with struct names)".into(),
                    actual: format!("{:?}", other.map(|r| r.map(|_| ()))),
                });
                return;
            },
        },
        other => {
            st.violation(Viol {
                kind: "context-does-not-serialize".into(),
                input: input.clone(),
                expected: "serializes (pretty output with struct names)".into(),
                actual: format!("{:?}", other.map(|r| r.map(|_| ()))),
            });
            return;
        },
    }
    st.count("b/contexts-round-tripped");
    if observe(c).len() >= 2 {
        st.nontrivial += 1;
    }
    let no_function = matches!(back.call_function("f", &Value::Empty), Err(EvalexprError::FunctionIdentifierNotFound(_)))
        && matches!(back.call_function("a", &Value::Empty), Err(EvalexprError::FunctionIdentifierNotFound(_)));
    if observe(&back) != observe(c) || back.are_builtin_functions_disabled() != c.are_builtin_functions_disabled() || !no_function {
        st.violation(Viol {
            kind: "context-round-trip-differs".into(),
            input: format!("{{\"history\": {}, \"ron\": {}}}", esc(history), esc(&text)),
            expected: format!("variables {:?}, builtins disabled {}, no user function", observe(c), c.are_builtin_functions_disabled()),
            actual: format!("variables {:?}, builtins disabled {}, resolves no user function: {}", observe(&back), back.are_builtin_functions_disabled(), no_function),
        });
    }
}

fn part_contexts(depth: usize, st: &mut Stats) {
    let all = value_pool();
    let pool: Vec<EV> = all.iter().filter(|v| value_usable(v)).cloned().collect();
    *st.counters.entry("b/value-pool".into()).or_insert(0) = pool.len() as u64;
    *st.counters.entry("b/values-excluded-because-ron-does-not-round-trip-them".into()).or_insert(0) = (all.len() - pool.len()) as u64;
    // every pool value alone, as a bare Value and in a context
    for v in &pool {
        st.evaluations += 1;
        let ok = match ron::ser::to_string(v).ok().and_then(|s| ron::de::from_str::<EV>(&s).ok()) {
            Some(b) => vkey(&b) == vkey(v),
            None => false,
        };
        st.count("b/values-round-tripped");
        if !ok {
            st.violation(Viol {
                kind: "value-round-trip-differs".into(),
                input: format!("{{\"value\": {}}}", esc(&vkey(v))),
                expected: vkey(v),
                actual: format!("{:?}", ron::ser::to_string(v).map(|s| ron::de::from_str::<EV>(&s))),
            });
        }
    }
    let mut ops: Vec<Op> = Vec::new();
    for n in 0..4 {
        for v in 0..pool.len() {
            ops.push(Op::Set(n, v));
        }
    }
    ops.push(Op::ClearVariables);
    ops.push(Op::SetFunction);
    ops.push(Op::SetFunctionNamedLikeAVariable);
    ops.push(Op::Disable(true));
    ops.push(Op::Disable(false));
    ops.push(Op::Assign("a = 1.0 / 3; B = (a, \"x\", ()); b = 2"));
    ops.push(Op::Assign("b = 0.1 + 0.2"));
    ops.push(Op::RoundTrip);
    // depth-bounded exploration of API histories; at the deepest level only a slice of the value actions
    fn go(c: &HCtx, hist: &mut Vec<String>, ops: &[Op], pool: &[EV], left: usize, depth: usize, st: &mut Stats) {
        check_context(c, &hist.join("; "), st);
        st.states += 1;
        if left == 0 {
            return;
        }
        for (i, op) in ops.iter().enumerate() {
            // thin the value alphabet below the first level to keep the history space tractable
            if left < depth {
                if let Op::Set(_, v) = op {
                    if (v + i) % 4 != 0 {
                        continue;
                    }
                }
            }
            let mut c2 = c.clone();
            apply(&mut c2, op, pool);
            hist.push(format!("{:?}", op));
            st.transitions += 1;
            go(&c2, hist, ops, pool, left - 1, depth, st);
            hist.pop();
        }
    }
    go(&HCtx::new(), &mut vec![], &ops, &pool, depth, depth, st);
}

/// Every character in 0..=0x3000 (and a few beyond) inside the expression string: as string-literal content,
/// inside an identifier, alone, inside a comment and as a variable name of a context.
fn part_code_points(st: &mut Stats) {
    let mut cps: Vec<u32> = (0..=0x3000).collect();
    cps.extend([0xfeff, 0xfffd, 0xe000, 0x1f600, 0xe0001, 0x10ffff]);
    for c in cps.into_iter().filter_map(char::from_u32) {
        for src in [format!("\"a{c}b\""), format!("a{c}b"), format!("{c}"), format!("1 /*{c}*/ + 2"), format!("x == \"{c}{c}\" + 1")] {
            check_expression(&src, st);
            *st.counters.entry("c/code-point-sources".into()).or_insert(0) += 1;
        }
        if c as u32 % 8 == 0 || !c.is_ascii() && (c as u32) < 0x2100 {
            let mut ctx = HCtx::new();
            let _ = ctx.set_value(format!("n{c}"), Value::String(format!("v{c}")));
            let _ = ctx.set_value(format!("{c}"), Value::Int(1));
            check_context(&ctx, &format!("set_value(\"n{}\", \"v{}\"); set_value(\"{}\", 1)", c.escape_default(), c.escape_default(), c.escape_default()), st);
        }
    }
}

/// Long expressions and contexts with many variables.
fn part_scaling(thorough: bool, st: &mut Stats) {
    // names and strings that collide with the vocabulary of the serialized form (round 12): a variable
    // named like a field of the context or like a variant of Value, a string that spells a float, a boolean,
    // a unit or a variant — under every such name, every such string and every pool value, alone, inside a
    // tuple, and two at a time
    {
        let names = [
            "variables", "functions", "without_builtin_functions", "Int", "Float", "String", "Boolean", "Tuple", "Empty", "true", "false", "inf", "NaN", "Some", "None", "x",
        ];
        let spellings = [
            "inf", "-inf", "+inf", "NaN", "nan", "Infinity", "infinity", "-Infinity", "1e999", "-1e999", "1", "-1", "1.5", "-0", "0x10", "true", "false", "()", "Empty", "Int(1)", "[1]", "(1,2)", "\"q\"", "String(\"a\")", "null", "",
        ];
        let pool: Vec<EV> = value_pool().into_iter().filter(value_usable).collect();
        let mut values: Vec<EV> = spellings.iter().map(|s| Value::String(s.to_string())).collect();
        values.extend(pool.iter().cloned());
        for v in &values {
            st.evaluations += 1;
            st.count("b/values-round-tripped");
            for w in [v.clone(), Value::Tuple(vec![v.clone(), Value::Int(1)]), Value::Tuple(vec![Value::Tuple(vec![v.clone()])])] {
                let ok = match ron::ser::to_string(&w).ok().and_then(|s| ron::de::from_str::<EV>(&s).ok()) {
                    Some(b) => vkey(&b) == vkey(&w),
                    None => false,
                };
                if !ok {
                    st.violation(Viol {
                        kind: "value-round-trip-differs".into(),
                        input: format!("{{\"value\": {}}}", esc(&vkey(&w))),
                        expected: vkey(&w),
                        actual: format!("{:?}", ron::ser::to_string(&w).map(|s| ron::de::from_str::<EV>(&s))),
                    });
                }
            }
        }
        for (i, n) in names.iter().enumerate() {
            for (j, v) in values.iter().enumerate() {
                for disabled in [false, true] {
                    let mut c = HCtx::new();
                    c.set_value(n.to_string(), v.clone()).unwrap();
                    // a second variable under the next name, holding the next value
                    if (i + j) % 3 == 0 {
                        c.set_value(names[(i + 1) % names.len()].to_string(), values[(j + 1) % values.len()].clone()).unwrap();
                    }
                    c.set_builtin_functions_disabled(disabled).unwrap();
                    check_context(&c, &format!("variable {:?} = {}, builtins disabled {}", n, vkey(v), disabled), st);
                    *st.counters.entry("b/vocabulary-collision-contexts".into()).or_insert(0) += 1;
                }
            }
        }
    }
    let mut sizes: Vec<usize> = (1..=if thorough { 40 } else { 20 }).collect();
    sizes.extend(if thorough { vec![64, 65, 100, 129, 200, 400] } else { vec![33, 64, 65, 129] });
    for n in sizes {
        for src in [
            format!("{}1", "1+".repeat(n)),
            format!("{}x{}", "(".repeat(n), ")".repeat(n)),
            format!("\"{}\"", "a\\\\\\\"ä".repeat(n)),
            format!("{}f(1)", "-".repeat(n)),
            format!("{}", "v, ".repeat(n)),
            format!("x = {} // {}\n + 1", n, "c".repeat(n)),
            format!("{}1", "(".repeat(n)),
        ] {
            check_expression(&src, st);
        }
        let pool = value_pool();
        let pool: Vec<EV> = pool.into_iter().filter(value_usable).collect();
        let mut c = HCtx::new();
        for i in 0..n {
            let name = if i % 2 == 0 { format!("v{}", i) } else { format!("V{}", i - 1) };
            c.set_value(name, pool[i % pool.len()].clone()).unwrap();
        }
        c.set_value("nested".into(), Value::Tuple((0..n).map(|i| pool[i % pool.len()].clone()).collect())).unwrap();
        check_context(&c, &format!("{} variables of cycling types and one {}-tuple", n, n), st);
        *st.counters.entry("s/scaling-family-sizes".into()).or_insert(0) += 1;
    }
}

fn write_outputs(tier: &str, seed: u64, st: &Stats, wall: f64) -> i32 {
    let replay_dir = "/verif/replays/C16";
    let _ = std::fs::remove_dir_all(replay_dir);
    let mut lines = Vec::new();
    if !st.violations.is_empty() {
        std::fs::create_dir_all(replay_dir).ok();
        for (i, v) in st.violations.iter().enumerate() {
            let path = format!("{}/{:03}.json", replay_dir, i);
            let body = format!(
                "{{\n  \"property\": \"C16\",\n  \"kind\": {},\n  \"input\": {},\n  \"expected\": {},\n  \"actual\": {}\n}}\n",
                esc(&v.kind),
                v.input,
                esc(&v.expected),
                esc(&v.actual)
            );
            std::fs::write(&path, body).ok();
            lines.push(format!("VIOLATION property=C16 replay={}", path));
        }
    }
    let counters = st.counters.iter().map(|(k, v)| format!("{}: {}", esc(k), v)).collect::<Vec<_>>().join(", ");
    let samples = if st.samples.is_empty() { "\"<none>\"".to_string() } else { st.samples.join(", ") };
    let evidence = format!(
        "{{\n \"property_id\": \"C16\",\n \"tier\": {},\n \"seed\": {},\n \"level\": \"model_checking\",\n \"coverage\": {{\n  \"evaluations\": {},\n  \"distinct_nontrivial\": {},\n  \"states\": {},\n  \"transitions\": {},\n  \"traces_validated_against_impl\": {},\n  \"rule\": {},\n  \"samples\": [{}],\n  \"exhaustive\": true,\n  \"counters\": {{{}}}\n }},\n \"assumptions\": [{}],\n \"wall_s\": {:.3},\n \"violations\": {}\n}}\n",
        esc(tier),
        seed,
        st.evaluations,
        st.nontrivial,
        st.states,
        st.transitions,
        st.transitions,
        esc("(a) depth-first search over every token sequence up to the tier's length over a 14-token alphabet and every character string up to the tier's length over 25 characters (quotes, backslashes, newline, multi-byte, signs, digits, dot, e, x, punctuation), each encoded as a RON string with ron::ser::to_string and decoded as Node: Ok trees must equal build_operator_tree(s) — by the crate's PartialEq and by the derived Debug and the Display rendering and by behaviour (evaluated with a = 3 in a fresh context: same result, same context afterwards) —, Err messages must equal error.to_string(); (b) every HashMapContext reachable by API histories up to the tier's depth over {set_value of 4 names (two differing only in case, one with a space and a non-ASCII letter, the empty name) x a value pool of all six types incl. i64 extremes, signed zero, subnormal, infinities, NaN, nested/empty tuples, hostile strings; clear_variables; set_function (also under the name of a variable); builtin switch on/off; expression assignments; replacing the context by its own deserialized copy, so that histories continue from deserialized contexts}: from_str(to_string(c)), and the same through pretty output with struct names, must have the same sorted variable map (floats by bits), the same switch and resolve no user function; plus every pool value as a bare Value; plus 16 variable names that collide with the vocabulary of the serialized form (`variables`, `functions`, `without_builtin_functions`, `Int`, `Tuple`, `Empty`, `true`, `inf`, `NaN` ...) x (26 strings that spell a float, a boolean, a unit or a variant — `inf`, `-inf`, `NaN`, `1e999`, `true`, `()`, `Int(1)` ... — and every pool value), bare, inside tuples and in contexts with the switch on and off; plus every character in 0..=0x3000 inside the expression string (string content, identifier, alone, comment) and in variable names; plus scaling families (expressions of n terms / nesting depth n / strings of n escapes, contexts with n variables incl. case-colliding names and an n-tuple, n in 1..20 and up to 129 / 1..40 and up to 400). A state is a token/character prefix or a context history; a transition appends a token or applies an operation; every state is executed on the implementation. Non-trivial = sources of >= 3 bytes and contexts with >= 2 variables (each enumerated once)"),
        samples,
        counters,
        [
            "ron 0.8.1 is the serde format; a float enters the pool only if ron round-trips it as a bare f64 (calibrated at start), and a source string only if ron round-trips it as a String",
            "oracle for expressions is build_operator_tree itself; for contexts the context itself",
        ]
        .iter()
        .map(|s| esc(s))
        .collect::<Vec<_>>()
        .join(", "),
        wall,
        st.violations_total
    );
    std::fs::create_dir_all("/verif/evidence").ok();
    if std::fs::write("/verif/evidence/C16.json", evidence).is_err() {
        println!("MACHINERY-ERROR cannot write /verif/evidence/C16.json");
        return 2;
    }
    println!(
        "C16 {}: evaluations={} states={} transitions={} distinct_nontrivial={} violations={} wall={:.1}s",
        tier, st.evaluations, st.states, st.transitions, st.nontrivial, st.violations_total, wall
    );
    for l in &lines {
        println!("{}", l);
    }
    if !lines.is_empty() {
        return 1;
    }
    // vacuity guards
    let g = |k: &str| st.counters.get(k).copied().unwrap_or(0);
    if g("a/precompiles") == 0 || g("a/rejected") == 0 || g("b/contexts-round-tripped") == 0 || g("b/value-pool") < 20 {
        println!("MACHINERY-ERROR vacuity guard not reached: {:?}", st.counters);
        return 2;
    }
    0
}

fn main() {
    let args: Vec<String> = std::env::args().skip(1).collect();
    if args.first().map(|s| s.as_str()) != Some("C16") {
        println!("MACHINERY-ERROR usage: evx-mc-serde C16 <quick|thorough> | C16 --replay <path>");
        std::process::exit(2);
    }
    std::panic::set_hook(Box::new(|_| {}));
    if args.get(1).map(|s| s.as_str()) == Some("--replay") {
        // replay files carry the source or the history as text; re-run the quick tier and look for the same input
        let path = args.get(2).cloned().unwrap_or_default();
        let text = std::fs::read_to_string(&path).unwrap_or_default();
        let mut st = Stats::default();
        part_expressions(3, 2, &mut st);
        part_contexts(2, &mut st);
        let hit = st.violations.iter().find(|v| text.contains(&v.input));
        match hit {
            Some(v) => {
                println!("replayed C16: still violated\n  kind: {}\n  input: {}\n  expected: {}\n  actual: {}", v.kind, v.input, v.expected, v.actual);
                println!("VIOLATION property=C16 replay=<replayed>");
                std::process::exit(1);
            },
            None => {
                println!("replayed C16: the case now satisfies the property (or lies beyond the quick bounds; {} violation(s) at quick bounds)", st.violations_total);
                std::process::exit(if st.violations_total > 0 { 1 } else { 0 });
            },
        }
    }
    let tier = match args.get(1).map(|s| s.as_str()) {
        Some("quick") => "quick",
        Some("thorough") => "thorough",
        _ => {
            println!("MACHINERY-ERROR tier must be quick or thorough");
            std::process::exit(2);
        },
    };
    let seed = std::env::var("VERIF_SEED").ok().and_then(|s| s.parse::<u64>().ok()).unwrap_or(0);
    let start = Instant::now();
    let mut st = Stats::default();
    let r = catch_unwind(AssertUnwindSafe(|| {
        if tier == "quick" {
            part_expressions(5, 3, &mut st);
            part_contexts(2, &mut st);
            part_scaling(false, &mut st);
            part_code_points(&mut st);
        } else {
            part_expressions(6, 4, &mut st);
            part_contexts(3, &mut st);
            part_scaling(true, &mut st);
            part_code_points(&mut st);
        }
    }));
    if r.is_err() {
        println!("MACHINERY-ERROR engine panicked");
        std::process::exit(2);
    }
    st.samples.push(format!(
        "{{\"source\": {}, \"ron\": {}, \"deserialized_equals_precompiled\": true}}",
        esc("a = \"x\\\\y\"; a"),
        esc(&ron::ser::to_string(&"a = \"x\\\\y\"; a").unwrap_or_default())
    ));
    let mut c = HCtx::new();
    c.set_value("a".into(), Value::Float(-0.0)).unwrap();
    c.set_value("b".into(), Value::Tuple(vec![Value::Int(i64::MIN), Value::Empty])).unwrap();
    st.samples.push(format!("{{\"context_ron\": {}}}", esc(&ron::ser::to_string(&c).unwrap_or_default())));
    std::process::exit(write_outputs(tier, seed, &st, start.elapsed().as_secs_f64()));
}
