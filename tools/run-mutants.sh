#!/bin/bash
# Applies each deliberate change to /repo in turn (always reverting), runs checks against it and writes
# a result table. Usage:
#   tools/run-mutants.sh <out.md> [--checks "C01 C02 ..."] [--no-suite] <patch>...     (patch names starting with
#   "revert-" are applied in reverse; default checks: all registered ones, quick tier)
# Each row: patch | suite (pass/fail) | checks that reported VIOLATION | first counterexample of each.
set -u
cd /verif || exit 2
out="$1"; shift
checks=""
if [ "${1:-}" = "--checks" ]; then checks="$2"; shift 2; fi
nosuite=0; if [ "${1:-}" = "--no-suite" ]; then nosuite=1; shift; fi   # the suite result was established by tools/verify-seed.sh
[ -z "$checks" ] && checks=$(python3 -c "import json;print(' '.join(c['property_id'] for c in json.load(open('/verif/MANIFEST.json'))['checks']))")
if [ -n "$(git -C /repo status --porcelain --untracked-files=no)" ]; then echo "run-mutants: /repo is dirty, refusing"; exit 2; fi
echo "| change | repo suite | reported by (quick tier) | shortest counterexample printed |" > "$out"
echo "|---|---|---|---|" >> "$out"
for patch in "$@"; do
  name=$(basename "$patch" .diff)
  [ "$name" = "patch" ] && name=$(basename "$(dirname "$patch")")
  rev=""
  case "$name" in revert-*) rev="-R";; esac
  if ! git -C /repo apply $rev "$(realpath "$patch")" 2>/dev/null; then
    echo "| $name | patch does not apply | | |" >> "$out"; continue
  fi
  if [ $nosuite -eq 1 ]; then suite="passes (verify-seed)"; elif tools/repo-suite.sh /repo >/dev/null 2>&1; then suite="passes"; else suite="FAILS"; fi
  hits=""; examples=""
  for id in $checks; do
    log=$(./check "$id" quick 2>&1); rc=$?
    if [ $rc -eq 1 ]; then
      hits="$hits $id"
      f=$(echo "$log" | grep -m1 '^VIOLATION' | sed -E 's/.*replay=//')
      ex=$(python3 - "$f" <<'PY'
import json, sys
try:
    j = json.load(open(sys.argv[1]))
    s = json.dumps(j.get("input"), ensure_ascii=False)
    print((j.get("kind", "") + ": " + s)[:160].replace("|", "\\|").replace("\n", " "))
except Exception as e:
    print(sys.argv[1])
PY
)
      examples="$examples **$id** $ex;"
    elif [ $rc -ne 0 ]; then
      hits="$hits $id(machinery-error)"
    fi
  done
  git -C /repo checkout -- . && git -C /repo clean -fdq -- src
  [ -z "$hits" ] && hits=" — none —"
  echo "| $name | $suite |$hits | $examples |" >> "$out"
  echo "$name: suite $suite; detected by:$hits"
done
