#!/bin/bash
# False-alarm test: applies each behaviour-preserving change to /repo (always reverting), runs the
# repository's suite and every registered check (quick tier), and lists anything that is not exit 0.
# Usage: tools/run-refactors.sh <out.md> [--checks "C01 .."] [--no-suite] <patch>...   (--no-suite: the suite result
# of a refactor does not depend on /verif and was established when the refactor was filed)
set -u
cd /verif || exit 2
out="$1"; shift
checks=""; nosuite=0
if [ "${1:-}" = "--checks" ]; then checks="$2"; shift 2; fi
if [ "${1:-}" = "--no-suite" ]; then nosuite=1; shift; fi
[ -z "$checks" ] && checks=$(python3 -c "import json;print(' '.join(c['property_id'] for c in json.load(open('/verif/MANIFEST.json'))['checks']))")
[ -n "$(git -C /repo status --porcelain --untracked-files=no)" ] && { echo "/repo is dirty"; exit 2; }
echo "| behaviour-preserving change | repo suite | checks that did not exit 0 |" > "$out"; echo "|---|---|---|" >> "$out"
for patch in "$@"; do
  name=$(basename "$patch" .diff)
  git -C /repo apply "$(realpath "$patch")" 2>/dev/null || { echo "| $name | patch does not apply | |" >> "$out"; continue; }
  if [ $nosuite -eq 1 ]; then suite="(not re-run)"; elif tools/repo-suite.sh /repo >/dev/null 2>&1; then suite="passes"; else suite="FAILS"; fi
  bad=""
  for id in $checks; do
    log=$(./check "$id" quick 2>&1); rc=$?
    if [ $rc -ne 0 ]; then
      bad="$bad $id(exit $rc)"
      mkdir -p /var/tmp/refactor-logs; echo "$log" > /var/tmp/refactor-logs/$name-$id.log
      [ -d replays/$id ] && { rm -rf /var/tmp/refactor-logs/$name-$id-replays; cp -r replays/$id /var/tmp/refactor-logs/$name-$id-replays; }
    fi
  done
  git -C /repo checkout -- . && git -C /repo clean -fdq -- src
  [ -z "$bad" ] && bad=" — none —"
  echo "| $name | $suite |$bad |" >> "$out"; echo "$name: suite $suite; not exit 0:$bad"
done
