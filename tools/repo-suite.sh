#!/bin/bash
# Runs the repository's own pinned suite (guard off) in the given tree (default /repo); exit 0 iff all pass.
# Usage: tools/repo-suite.sh [dir]
dir="${1:-/repo}"
cd "$dir" || exit 2
out=$(CARGO_NET_OFFLINE=true cargo test --workspace --no-fail-fast --offline 2>&1)
rc=$?
echo "$out" | grep -E "^test result|FAILED|failed|panicked|error(\[|:)" | head -40
passed=$(echo "$out" | grep -E "^test result" | sed -E 's/.* ([0-9]+) passed.*/\1/' | paste -sd+ | bc)
echo "TOTAL passed=$passed rc=$rc"
exit $rc
