#!/usr/bin/env python3
"""Writes a copy of the evalexpr sources in which the synchronisation primitives of the standard library
are replaced by loom's, so that loom can explore the interleavings *inside* the library (C15, loom pass).

    tools/loomify.py <repo dir> <output crate dir>

What is rewritten (textually; the pinned tree uses none of these, so on it the copy equals the original):
  std::sync::atomic::*, std::sync::{Mutex, RwLock, Condvar, Barrier, mpsc}  -> loom::sync::...
  std::thread                                                               -> loom::thread
  std::hint::spin_loop                                                      -> loom::hint::spin_loop
  thread_local!                                                             -> loom::thread_local!
  `static NAME: T = EXPR;` whose type or initialiser mentions one of the loom types
                                                                            -> loom::lazy_static!
  `*atomic.get_mut() = v;` / `*atomic.get_mut()`                            -> atomic.store(v, SeqCst) / atomic.load(SeqCst)
  (core::sync / core::hint spelled like std)
Left alone: Arc, Weak, Once, OnceLock, LazyLock (loom has no model for them, or only a partial one);
Cell / RefCell (not Sync, so only reachable through thread_local!, which is rewritten).
Exit status 0: crate written. The build of that crate may still fail (an API loom does not have); the
caller treats that as "loom pass not applicable to this tree", never as a verdict.
Prints one line `loomify: <n> replacements in <m> files` (n = 0 on a tree without synchronisation).
"""
import os
import re
import shutil
import sys

LOOM_SYNC = {"Mutex", "MutexGuard", "RwLock", "RwLockReadGuard", "RwLockWriteGuard", "Condvar", "Barrier", "mpsc", "atomic", "Notify"}
TYPE_HINT = re.compile(r"\b(Atomic[A-Z][A-Za-z0-9]*|Mutex|RwLock|Condvar)\b")


def expand_use_tree(tree):
    """`a::{b, c::{d, e as f}, self}` -> ["a::b", "a::c::d", "a::c::e as f", "a"] (flat paths)."""
    tree = tree.strip()
    depth, start = 0, None
    for i, ch in enumerate(tree):
        if ch == "{":
            if depth == 0:
                start = i
            depth += 1
        elif ch == "}":
            depth -= 1
            if depth == 0:
                # only a trailing brace group is legal in a use tree
                prefix = tree[:start].strip()
                if prefix.endswith("::"):
                    prefix = prefix[:-2]
                inner = tree[start + 1 : i]
                parts, d, cur = [], 0, ""
                for c in inner:
                    if c == "{":
                        d += 1
                    elif c == "}":
                        d -= 1
                    if c == "," and d == 0:
                        parts.append(cur)
                        cur = ""
                    else:
                        cur += c
                if cur.strip():
                    parts.append(cur)
                out = []
                for part in parts:
                    for sub_path in expand_use_tree(part):
                        if sub_path == "self":
                            out.append(prefix)
                        elif sub_path.startswith("self as "):
                            out.append(prefix + sub_path[4:])
                        else:
                            out.append((prefix + "::" + sub_path) if prefix else sub_path)
                return out
    return [re.sub(r"\s+", " ", tree)]


def route_path(path):
    """One flat use path -> the same path, or its loom counterpart."""
    m = re.match(r"^(?:std|core)::sync::(\w+)(.*)$", path)
    if m and m.group(1) in LOOM_SYNC:
        return "loom::sync::" + m.group(1) + m.group(2), True
    if re.match(r"^(?:std|core)::thread(\b.*)?$", path):
        return re.sub(r"^(?:std|core)::thread", "loom::thread", path), True
    if re.match(r"^(?:std|core)::hint::spin_loop\b", path):
        return re.sub(r"^(?:std|core)::hint", "loom::hint", path), True
    return path, False


def rewrite_use(m):
    """A whole `use ...;` item: flattened and routed if anything in it needs loom, else left as written."""
    indent, vis, tree = m.group(1), m.group(2) or "", m.group(3)
    if not re.search(r"\b(sync|thread|hint)\b", tree):
        return m.group(0)
    paths = expand_use_tree(tree)
    routed = [route_path(p) for p in paths]
    if not any(changed for _, changed in routed):
        return m.group(0)
    return "\n".join(f"{indent}{vis}use {p};" for p, _ in routed)


def transform(text):
    n = 0

    def sub(pattern, repl, s, flags=0):
        nonlocal n
        s2, k = re.subn(pattern, repl, s, flags=flags)
        n += k
        return s2

    # whole `use` items first (nested groups are flattened when something in them needs loom)
    before = text
    text = re.sub(r"(?ms)^([ \t]*)(pub(?:\([a-z]+\))? )?use ([^;]+);", rewrite_use, text)
    if text != before:
        n += 1
    # paths written out in the code
    for name in sorted(LOOM_SYNC):
        text = sub(rf"\b(?:std|core)::sync::{name}\b", f"loom::sync::{name}", text)
    text = sub(r"\b(?:std|core)::thread\b", "loom::thread", text)
    text = sub(r"\b(?:std|core)::hint::spin_loop\b", "loom::hint::spin_loop", text)
    text = sub(r"(?<![:\w])thread_local!", "loom::thread_local!", text)
    text = sub(r"\bstd::loom::thread_local!", "loom::thread_local!", text)

    # loom's atomics have no get_mut(); under exclusive access a store / load is the same thing.
    # (`.get_mut()` directly dereferenced is the atomic form; a lock's get_mut() returns a Result first)
    text = sub(r"\*([A-Za-z_][\w\.]*(?:\(\))?)\.get_mut\(\)\s*=\s*([^;]+);", r"\1.store(\2, loom::sync::atomic::Ordering::SeqCst);", text)
    text = sub(r"\*([A-Za-z_][\w\.]*(?:\(\))?)\.get_mut\(\)", r"\1.load(loom::sync::atomic::Ordering::SeqCst)", text)

    # statics holding loom types: loom's constructors are not const
    def static_repl(m):
        nonlocal n
        vis, name, ty, init = m.group(1) or "", m.group(2), m.group(3), m.group(4)
        if not (TYPE_HINT.search(ty) or TYPE_HINT.search(init)):
            return m.group(0)
        n += 1
        return f"loom::lazy_static! {{ {vis}static ref {name}: {ty} = {init}; }}"

    # anywhere an item can stand (module level, or in the middle of a block on one line)
    text = re.sub(r"(?s)(?<![\w!])(pub(?:\([a-z]+\))? )?static\s+(?!ref\b)(?!mut\b)([A-Z_][A-Z0-9_]*)\s*:\s*((?:[^=;{}\[\]]|\[[^\]]*\])+?)\s*=\s*([^;]+);", static_repl, text)
    return text, n


def main():
    repo, out = sys.argv[1], sys.argv[2]
    if os.path.isdir(out):
        shutil.rmtree(out)
    os.makedirs(out)
    total, files = 0, 0
    for root, _dirs, names in os.walk(os.path.join(repo, "src")):
        rel = os.path.relpath(root, repo)
        if rel.split(os.sep)[:2] == ["src", "bin"]:
            continue
        os.makedirs(os.path.join(out, rel), exist_ok=True)
        for f in names:
            src = os.path.join(root, f)
            dst = os.path.join(out, rel, f)
            if f.endswith(".rs"):
                text, n = transform(open(src, encoding="utf-8").read())
                if n:
                    files += 1
                total += n
                open(dst, "w", encoding="utf-8").write(text)
            else:
                shutil.copy(src, dst)
    open(os.path.join(out, "Cargo.toml"), "w").write(
        """[package]
name = "evalexpr"
version = "0.0.0"
edition = "2021"
publish = false

[lib]
name = "evalexpr"
path = "src/lib.rs"

[dependencies]
loom = "0.7"

[features]
serde = []
regex = []
rand = []

[lints.rust]
unexpected_cfgs = "allow"
"""
    )
    print(f"loomify: {total} replacements in {files} files")


if __name__ == "__main__":
    main()
