#!/bin/bash
# Confirms one independently written seeded change in its scratch worktree and files it under
# /verif/seeded/<prop>-<outk>/ (patch.diff, demo, meta.json). Usage: tools/verify-seed.sh <prop> <k> [worktree] [outk]
# Checks: patch applies to clean src; crate compiles; the repository's unedited suite passes with it
# (for C16 also with --features serde); the demo fails with it and passes without it.
set -u
prop="$1"; k="$2"; wt="${3:-/tmp/seed/$prop}"; outk="${4:-$k}"
export CARGO_NET_OFFLINE=true
cd "$wt" || exit 2
feat=""; [ "$prop" = "C16" ] && feat="--features serde"
git checkout -q -- src
mkdir -p /var/tmp/seedhold-$prop && mv tests/seed*_demo.rs /var/tmp/seedhold-$prop/ 2>/dev/null
res() { echo "$1" | grep -E "^test result" | awk '{p+=$4; f+=$6} END {printf "%d passed, %d failed", p, f}'; }
git apply "seed$k.diff" || { echo "$prop-$k: patch does not apply"; mv /var/tmp/seedhold-$prop/* tests/; exit 1; }
out=$(cargo test --workspace --no-fail-fast --offline 2>&1); rc_suite=$?; suite=$(res "$out")
suite_serde=""; rc_serde=0
if [ -n "$feat" ]; then out2=$(cargo test --offline --no-fail-fast $feat 2>&1); rc_serde=$?; suite_serde=$(res "$out2"); fi
cp /var/tmp/seedhold-$prop/seed${k}_demo.rs tests/
outd=$(cargo test --offline $feat --test seed${k}_demo 2>&1); rc_demo_with=$?; demo_with=$(res "$outd")
git checkout -q -- src
outc=$(cargo test --offline $feat --test seed${k}_demo 2>&1); rc_demo_without=$?; demo_without=$(res "$outc")
rm -f tests/seed${k}_demo.rs; mv /var/tmp/seedhold-$prop/* tests/ 2>/dev/null; rmdir /var/tmp/seedhold-$prop
ok=1
[ $rc_suite -ne 0 ] && ok=0; [ $rc_serde -ne 0 ] && ok=0; [ $rc_demo_with -eq 0 ] && ok=0; [ $rc_demo_without -ne 0 ] && ok=0
echo "$prop-$outk: suite[$suite rc=$rc_suite] serde[$suite_serde rc=$rc_serde] demo-with-change[$demo_with rc=$rc_demo_with] demo-without[$demo_without rc=$rc_demo_without] => $([ $ok -eq 1 ] && echo CONFIRMED || echo REJECTED)"
if [ $ok -eq 1 ]; then
  d=/verif/seeded/$prop-$outk; mkdir -p $d
  cp seed$k.diff $d/patch.diff; cp tests/seed${k}_demo.rs $d/demo.rs; cp seed$k.md $d/author-notes.md
  python3 - "$prop" "$outk" "$suite" "$suite_serde" "$demo_with" "$demo_without" "$wt" "$k" <<'PY'
import json, sys, re
prop, k, suite, serde, dw, dwo, wt, origk = sys.argv[1:9]
notes = open(f"/verif/seeded/{prop}-{k}/author-notes.md").read()
meta = {
  "id": f"{prop}-{k}", "breaks_property": prop,
  "origin": "written by a fresh sub-agent that was given only the text of the property and a scratch worktree (nothing from /verif)",
  "needs_to_manifest": "see author-notes.md (the author's own description)",
  "confirmed_by_me": {
    "where": f"scratch worktree {wt} (a git worktree of /repo at HEAD)",
    "patch_applies_and_compiles": True,
    "repo_suite_with_change": f"cargo test --workspace --no-fail-fast --offline: {suite}",
    "repo_suite_with_change_serde_feature": serde or None,
    "demo_with_change": f"cargo test --offline --test seed{origk}_demo: {dw} (fails, as required)",
    "demo_without_change": f"cargo test --offline --test seed{origk}_demo: {dwo} (passes, as required)",
  },
}
json.dump(meta, open(f"/verif/seeded/{prop}-{k}/meta.json", "w"), indent=1)
PY
fi
