#!/bin/bash
# Applies a patch to /repo's working tree, runs the given command, and always reverts.
# Usage: tools/with-patch.sh [-R] <patch.diff> -- <command...>
rev=""
if [ "$1" = "-R" ]; then rev="-R"; shift; fi
patch="$1"; shift; [ "$1" = "--" ] && shift
if [ -n "$(git -C /repo status --porcelain --untracked-files=no)" ]; then echo "with-patch: /repo is dirty, refusing"; exit 2; fi
git -C /repo apply $rev "$(realpath "$patch")" || { echo "with-patch: patch does not apply"; exit 2; }
"$@"; rc=$?
git -C /repo checkout -- . && git -C /repo clean -fdq -- src
exit $rc
