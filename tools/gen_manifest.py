#!/usr/bin/env python3
"""Generates /verif/MANIFEST.json from the table below (single source of truth for the interface)."""
import json, os, sys

V = "/verif"

# id -> dict(level, technique, text, note, design_ref, thorough(bool))
CHECKS = {
    "C01": dict(
        level="model_checking",
        technique="bounded exhaustive search over token-prefix states and character strings, complete builtin/operator matrices and pumped 4096-character families in child processes, on the real code in two build profiles; oracle: no unwind, no abnormal exit",
        text="Every token sequence and character string up to the stated lengths, every builtin x argument shape, every operator x operand pair and ~50 pumped input families up to 4096 characters are pushed through tokenizing, precompiling, evaluation in 12 contexts by shared/mutable/typed entry points and Display/Debug of all results, with overflow checks on and off. A panic is an existential over inputs; exhaustive small scopes plus edge pools plus deep pumping is the strongest statement a bounded search can make about it. Inputs between the enumerated lengths and 4096 characters are covered only by the pumped families.",
        note="Trusted: the panic hook / catch_unwind and child exit status as the oracle; default 8 MiB main-thread stack for deep inputs; optimised profiles with and without overflow checks stand for dev and release builds; user functions in the contexts do not panic.",
        design_ref="DESIGN.md section 4, C01",
    ),
    "C02": dict(
        level="exploration",
        technique="exhaustive enumeration (unranking) of all ASTs up to a node bound x parenthesisation and spacing variants, parsed by the real tree builder and compared with the generating AST",
        text="All ASTs with up to 3 (quick) / 4 (thorough) operator nodes over the full operator alphabet and up to 4 / 6 over one representative per precedence class are rendered with minimal, full and redundant parentheses and two spacings; every flat infix sequence of up to 5 / 6 of the 14 binary operators is checked against a precedence-climbing reference; chains, ladders and nestings of up to 129 / 400 operators; the parsed tree must equal the AST. Covers every ordered pair and triple of operators, which is where precedence/associativity slips live; deeper nestings rely on the class argument. The minimal rendering is also checked with each of the 25 white-space characters of char::is_whitespace as the separator.",
        note="Trusted: the README precedence table as encoded in the minimal-parentheses renderer (mc/src/refmodel/ast.rs); exclusions exactly as the property's quantifier states.",
        design_ref="DESIGN.md section 4, C02",
    ),
    "C03": dict(
        level="exploration",
        technique="exhaustive enumeration of the complete operator x operand-pool^2 matrix on the real evaluator against an i128/f64 reference table, in two build profiles",
        text="Every operator is run on every ordered pair of a 78-value edge pool (330 values in the thorough tier) (all six value types; i64 extremes and neighbours, 2^53/2^63 boundaries, signed zeros, subnormals, infinities, NaN, non-ASCII strings, nested/empty tuples) through three routes (variables, literals, op-assign) with overflow checks on and off and compared with an independent reference. Complete for the pool, so any per-operator or per-type-pair slip is found; values outside the pool are not covered. The pool includes strings that spell a value of another type (\"2\", \"1.5\", \" 4 \", \"inf\", \"NaN\", \"true\", \"()\"): still strings.",
        note="Trusted: the reference table mc/src/refmodel/ops.rs; Rust's f64 arithmetic and powf (same libm on both sides). Accepted both ways: MIN % -1, int/float ordering beyond 2^53, ==/!= on NaN and signed zero.",
        design_ref="DESIGN.md section 4, C03",
    ),
    "C04": dict(
        level="model_checking",
        technique="explicit-state breadth-first search (stateright) whose transition function is the real HashMapContext API run in lock-step with an abstract map model; plus unmerged depth-3 histories",
        text="All reachable abstract states of a HashMapContext over 2 names x 15 values (incl. 1.0, 0.0, -0.0, NaN and a string spelling a variable name) x 2 function slots x the builtin switch, every operation in every state (set_value, expression assignments with all 9 assignment operators, clears, set_function, switch, clone), return value and full observation compared with the model after each transition; closed sub-machine to closure, op-assign machine to the fixpoint of a magnitude box (thorough). This is the finite-state protocol case model checking is made for.",
        note="Trusted: the abstract map model (RCtx in mc/src/refmodel/interp.rs); state merging by observation (hidden state is covered by the unmerged-history pass to its depth only).",
        design_ref="DESIGN.md section 4, C04",
    ),
    "C05": dict(
        level="exploration",
        technique="exhaustive enumeration of all `,`/`;` separator skeletons x element fillings (incl. nested groups), real tree and evaluation compared with a reference tree and interpreter",
        text="Every skeleton of up to 4 (quick) / 6 (thorough) separators with every filling from absent / literal / assignment / read / op-assign, nested parenthesised sequences in every slot, and the same as call arguments; tree shape, value, final context and call log are compared; sequences whose value is the empty value also go through the typed accessor Node::eval_empty_with_context_mut. The sequence logic depends only on the local pattern of separators and parentheses, which these bounds cover completely.",
        note="Trusted: the split-at-`;`-then-`,` reference and the reference interpreter.",
        design_ref="DESIGN.md section 4, C05",
    ),
    "C06": dict(
        level="exploration",
        technique="exhaustive enumeration of strings over small hostile alphabets (quoted texts, raw sources, numeric-alphabet strings, words) and of integer/double pools x renderings x embeddings, against an independent lexer/classifier",
        text="All texts up to 4/6 characters over a 16-character alphabet quoted and embedded, all raw quote-led sources up to 6/9, all integers below 2^14/2^17 in five spellings plus power boundaries, all strings up to 6/8 characters over the numeric alphabet `0 1 5 9 . e E + - x`, ~1500-4500 doubles in up to 13 renderings (incl. 40-digit expansions and the upper-case exponent marker) and 12 embeddings, all words up to 3/5 over 22 characters, plus literals of n characters (n up to 129/400). Token assembly is character-local, so short exhaustive alphabets reach every branch of it. `0x` words around the signed 64-bit range: values below 2^63 with 0..=24 leading zeros are that integer, values of 2^63 and more are identifiers.",
        note="Trusted: mc/src/refmodel/lexer.rs; Rust's str::parse::<f64> as the correctly rounded conversion. Known finding F10 (inf/nan words) is reported as KNOWN-FINDING.",
        design_ref="DESIGN.md section 4, C06",
    ),
    "C07": dict(
        level="exploration",
        technique="exhaustive enumeration of token sequences x separator assignments per gap (25 White_Space code points, comments, mixtures, empty), differential against the single-space rendering; admissibility decided by a reference lexer",
        text="Every token sequence up to 3 (quick) / 4 (thorough) tokens over a 35-token alphabet, each gap ranging over a 38-entry separator menu while the others cycle, plus all gaps jointly over a core menu; equal trees or equal errors required. Separator handling is local to a gap and its two neighbours, so length-3/4 sequences with every menu entry at every gap cover it.",
        note="Trusted: the reference lexer for admissibility (fusing renderings are skipped, never reported).",
        design_ref="DESIGN.md section 4, C07",
    ),
    "C08": dict(
        level="model_checking",
        technique="exhaustive program enumeration x initial contexts on the real HashMapContext, and deviation-bounded depth-first exploration of environment answers (scripted Context) per program, against a reference interpreter incl. the ordered trace of context interactions",
        text="All programs up to 3 operator nodes over an effectful alphabet (assignments, op-assigns, recording calls, a failing user function that shadows a builtin, failing atoms, the empty value, an operator with a missing operand, tuples, chains) in 4 contexts, each through the mutable walker, the shared-context walker and (if it has effects) all 7 typed mutable views, and per program every script of context answers with up to 2 deviations (unbound / wrong-type reads, failing / missing / substituted functions, failing / lossy writes). Result, final variables, call log and the exact interaction sequence are compared, so reordered, repeated, skipped or rolled-back evaluation steps are all visible.",
        note="Trusted: the reference interpreter. The scripted axis reads 'exactly once' as: one context interaction per variable read, call and write. Not compared: an op-assign whose right-hand side assigns to its own target (two documented readings).",
        design_ref="DESIGN.md section 4, C08",
    ),
    "C09": dict(
        level="model_checking",
        technique="explicit enumeration of all configuration histories (switch / clone / clear / define) up to a depth from an empty context x 69 names x 36 call forms, against a reference resolution model",
        text="For every builtin name and 17 non-builtin names (incl. near-builtin names differing in letter case, namespace or one character), every history of up to 4 (quick) / 5 (thorough) operations over disable, enable, clone, clone_from, clear_functions, clear_variables, define function, define failing function, bind variable, plus the two fixed-policy contexts; 36 call forms (incl. `n\"ab\"` without a gap) evaluated in each configuration through Node::eval_with_context and through Node::eval_with_context_mut on a clone, with the user function recording its argument. The configuration matrix is finite and is enumerated completely (guarded: all 8 switch x function x variable combinations reached for every name). 24 further names of unusual lexical classes (digits and underscores only, leading digit, non-ASCII symbols, primes, combining marks, invisible non-space characters, ASCII punctuation that is no operator). The clone_from target holds its own user function and variable named n.",
        note="Trusted: reference resolution order (context function, then builtin if enabled, else unknown) and the C10 builtin table for builtin results.",
        design_ref="DESIGN.md section 4, C09",
    ),
    "C10": dict(
        level="exploration",
        technique="exhaustive enumeration of the complete 49-builtin x argument-shape matrix (arity 0..3 over an edge-value pool) against a reference builtin table, in two build profiles",
        text="Every builtin on Empty, every pool value, every ordered pair of the 78-value pool (330-value pool in the thorough tier) and every ordered triple of a sub-pool (complete 78^3 in the thorough tier), n-tuples and n-character strings up to n = 129 / 400, bit-exact against a reference table written from the README, plus all index pairs of str::substring on non-ASCII subjects with the len/substring consistency oracle.",
        note="Trusted: mc/src/refmodel/builtins.rs; same libm on both sides. Unclaimed as the property says: shifts outside 0..63, min/max with NaN, Empty needles, byte-vs-character unit of len.",
        design_ref="DESIGN.md section 4, C10",
    ),
    "C11": dict(
        level="model_checking",
        technique="exhaustive program enumeration x contexts; shared-context, mutable-on-clone and no-storage evaluations of each program compared with each other and with a reference interpreter in immutable / mutable / no-storage mode",
        text="All programs up to 2 (quick) / 3 (thorough) operator nodes of the C08 alphabet in 4 contexts: eval_with_context (tree and string), eval_with_context_mut on a clone, on a context with the default set_value, and on the two empty contexts; direct differential for assignment-free programs (untyped and all 7 typed views), a context with variables named like the program's own source text, projection to ContextNotMutable otherwise, context observation before and after. Plus 8 context configurations (builtin switch on/off x a user function shadowing a builtin x a variable bound or not) x 26 assignment-free sources calling builtins: the shared form on the original equals the mutable form on a context constructed the same way, on a clone and on a clone of a clone, and switch and variables are unchanged everywhere; in the enumeration the mutable run is repeated on a second context constructed the same way (the crate's Clone does not define the expectation). A used context overwritten by clone_from is a fifth form of 'the same context'.",
        note="Trusted: the reference interpreter; an immutable op-assign whose read or operator would fail may report either error.",
        design_ref="DESIGN.md section 4, C11",
    ),
    "C12": dict(
        level="model_checking",
        technique="exhaustive enumeration of token sequences x 13 contexts x all 48 entry points + build_operator_tree; each typed result compared with the projection of the untyped one, tree level with string level, context-free with fresh context, repeated runs",
        text="Every token sequence up to 4 (quick) / 5 (thorough) tokens over an alphabet reaching all six result types and every error stage, in 13 contexts (incl. one holding variables named like the source text itself), through all 24 string-level entry points (twice), all 24 Node methods and build_operator_tree; sequences up to 4 tokens also written without spaces where the reference lexer reads the same tokens. A copy-paste slip in any wrapper shows on the first input whose untyped result distinguishes it; all value types and errors occur (guarded). Expected-type errors are written as struct literals (the crate's constructor helpers do not define the expectation); results of every size 0..=300 / 0..=1100 (strings, tuples, nested) go through every entry point. The untyped tree-level forms are also evaluated on a clone of the tree and on a used tree overwritten by clone_from.",
        note="Trusted: the projection rules written from the property statement.",
        design_ref="DESIGN.md section 4, C12",
    ),
    "C13": dict(
        level="model_checking",
        technique="depth-first search over all token-prefix states up to a length over a class-representative alphabet on the real tokenizer/tree builder/evaluator, classified by an independent recursive-descent recogniser",
        text="Every token sequence up to 7 (quick) / 9 (thorough, 5.7 G states) tokens over 12 class representatives (up to 6 also written without spaces where the reference lexer reads the same tokens) and up to 4 / 5 over all 36 tokens (every operator, string literals spelling a parenthesis; short sequences also with comments containing a parenthesis), plus 27 families of long malformed inputs; unbalanced input must be rejected, balanced input never reported unbalanced, ill-formed input must not evaluate successfully in any of 5 generous contexts through the shared or the mutable walker.",
        note="Trusted: mc/src/refmodel/recogniser.rs as the definition of well-formedness; arity-correct trees that merely never evaluate are counted, not reported.",
        design_ref="DESIGN.md section 4, C13",
    ),
    "C14": dict(
        level="exploration",
        technique="exhaustive enumeration of ASTs and sequence shapes with identifiers in every position; 5+5 iterators against the AST's occurrence list; every name swap through the mutable iterators and the context",
        text="All ASTs up to 3 (quick) / 4 (thorough) operator nodes plus sequence-shaped ASTs (n-ary nodes, absent elements, `()`, nesting): iterator output equals the source-order occurrence list by class, mutable variants visit the same, unknown-identifier errors name listed identifiers, and every swap of two variable or function names (or with a fresh name) commutes with evaluation. ASTs with <= 2 operators are also read from layout variants (each white-space character, an inline comment, a line comment as the separator): same identifier lists. The iterators are also checked on a clone of the tree and on six used trees overwritten by clone_from.",
        note="Trusted: occurrence list from the generating AST; ASTs whose tree differs are skipped here (guarded to be zero) and belong to C02/C05.",
        design_ref="DESIGN.md section 4, C14",
    ),
    "C15": dict(
        level="model_checking",
        technique="stateless exploration of thread interleavings with iterative preemption bounding, by two engines: an own baton scheduler over real OS threads (scheduling points in harness-owned user functions), and loom (DPOR, preemption-bounded) on a copy of the sources whose std::sync primitives are mechanically rewritten to loom's, so that library-internal atomics and locks are scheduling points too; Send+Sync half decided by the type checker in a probe crate",
        text="13 workloads of 2-5 threads sharing one Arc<Node> and one Arc<HashMapContext>, built afresh for every execution (same tree, trees of nesting depth 50-100, different trees, failing and succeeding evaluations mixed, alternating user functions, string-level evaluation, per-thread mutable clones, clone/format/iterate while evaluating); every schedule with up to 2 preemptions (quick), up to 3 and unbounded for 2 threads (thorough); each thread's result and own call log must equal its sequential run. Loom pass: 10 workloads of 2-3 threads (constant subexpressions in a fresh shared tree, both threads inside the same user function, builtins while the other thread is inside a user function, a shadowed builtin, a failing thread, nested calls, unknown names, typed views / printing / iterators / clone, builtins disabled), preemption bound 2 (quick) / 2, 3, unbounded (thorough); after the join the shared objects must still answer sequentially. The compile probe instantiates Send + Sync for the 8 public types.",
        note="Trusted: #![forbid(unsafe_code)] (asserted) for the absence of data races proper; the pinned tree contains no synchronisation primitive, so on it loom only confirms the baton result; the loom pass exists for changes that add atomics, locks, thread-locals or statics (loomify rewrites them; Once/OnceLock/LazyLock/Arc stay on std and invisible). If the rewritten copy does not build the pass reports itself not applicable (never a verdict); capped or loom-aborted runs are counted, never reported as violations.",
        design_ref="DESIGN.md section 4, C15",
    ),
    "C16": dict(
        level="model_checking",
        technique="depth-first search over token/character prefixes encoded as RON strings and decoded as Node, and over API histories of HashMapContext serialized and deserialized with ron; oracle build_operator_tree / the context itself",
        engine="evx-mc-serde",
        text="Every token sequence up to 5 (quick) / 6 (thorough) tokens and every hostile character string up to 4 / 5 characters through ron encode -> Node decode (Ok trees equal, Err messages equal), and every context reachable by histories of depth 2 / 3 over set_value (3 names x 28 values of all types incl. signed zero, subnormals, infinities, NaN, nested tuples, hostile strings), clear, set_function, switch, expression assignments: same variables bit-exactly, same switch, no functions. Variable names and strings that collide with the vocabulary of the serialized form (field names, variant names, `inf`, `NaN`, `true`, `()`) are round-tripped bare, in tuples and in contexts; a deserialized tree must equal the precompiled one by PartialEq, Debug, Display and behaviour.",
        note="Trusted: ron 0.8.1 (a float or string enters only if ron alone round-trips it). If the harness stops compiling on the Serialize/Deserialize bounds of HashMapContext/Value while evalexpr compiles, the driver reports that as the violation.",
        design_ref="DESIGN.md section 4, C16",
    ),
}

NOT_APPLICABLE = {}

PENDING_REASON = "check not built yet at this commit (work in progress; see DESIGN.md section 4 for the planned check)"

def main():
    props = [json.loads(l)["id"] for l in open(f"{V}/properties.jsonl")]
    checks = []
    for pid in props:
        if pid not in CHECKS:
            continue
        c = CHECKS[pid]
        entry = {
            "property_id": pid,
            "quick_cmd": f"./check {pid} quick",
            "thorough_cmd": f"./check {pid} thorough",
            "evidence_file": f"/verif/evidence/{pid}.json",
            "replay_cmd_template": f"./check {pid} --replay {{path}}",
            "engine": c.get("engine", "evx-mc"),
            "level_claimed": {"category": c["level"], "text": c["text"], "design_ref": c["design_ref"]},
            "level_note": c["note"],
            "technique": c["technique"],
        }
        checks.append(entry)
    na = []
    for pid in props:
        if pid in CHECKS:
            continue
        na.append({"property_id": pid, "reason": NOT_APPLICABLE.get(pid, PENDING_REASON)})
    manifest = {
        "version": 1,
        "setup_cmd": "./check setup",
        "hooks": {
            "guard": "evalexpr_verif",
            "enable": "no source hook is needed: every check drives evalexpr through its public API (user functions, user Context implementations, Node accessors); the harness crates depend on /repo by path and rebuild it from the working tree on every run. The guard name is reserved (RUSTFLAGS=\"--cfg evalexpr_verif\") and currently guards nothing.",
            "baseline_off_cmd": "cd /repo && cargo test --workspace --no-fail-fast --offline",
            "source_commits": [],
            "add_only": True,
        },
        "engines": [
            {
                "name": "evx-mc",
                "path": "/verif/mc",
                "serves_properties": [p for p in props if p in CHECKS and CHECKS[p].get("engine", "evx-mc") == "evx-mc"],
                "kind_free_text": "Rust harness (stable toolchain, path dependency on /repo): bounded exhaustive enumeration of token sequences / ASTs / operand matrices / operation histories / schedules on the real code, compared with reference models in mc/src/refmodel; explicit-state search with stateright for C04; own deviation-bounded scheduler over real OS threads for C15 (plus the loom engine below)",
            },
        ],
        "checks": checks,
        "not_applicable": na,
        "notes": "Exit protocol of every command: 0 = held on everything explored (KNOWN-FINDING lines possible), 1 = VIOLATION property=<id> replay=<path>, 2 = MACHINERY-ERROR (build failure, engine crash, vacuity guard not reached) which is never a verdict. Known findings: /verif/known_findings.txt. Detection demonstrations: /verif/seeded/.",
    }
    manifest["engines"].append({
        "name": "evx-mc-loom",
        "path": "/verif/mc-loom",
        "serves_properties": ["C15"],
        "kind_free_text": "loom 0.7 model checker (exhaustive DPOR exploration with a preemption bound) over a mechanically rewritten copy of /repo's sources (tools/loomify.py writes it to /verif/.target/loom-src on every run); its result is merged into C15's evidence as a secondary profile",
    })
    if any(CHECKS[p].get("engine") == "evx-mc-serde" for p in CHECKS):
        manifest["engines"].append({
            "name": "evx-mc-serde",
            "path": "/verif/mc-serde",
            "serves_properties": ["C16"],
            "kind_free_text": "separate Rust harness on the repository's pinned toolchain 1.81 (the only one whose offline registry has ron), evalexpr built with the serde feature",
        })
    json.dump(manifest, open(f"{V}/MANIFEST.json", "w"), indent=1)
    print(f"MANIFEST.json: {len(checks)} checks, {len(na)} not_applicable")

if __name__ == "__main__":
    main()
