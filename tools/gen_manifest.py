#!/usr/bin/env python3
"""Generates /verif/MANIFEST.json from the table below (single source of truth for the interface)."""
import json, os, sys

V = "/verif"

# id -> dict(level, technique, text, note, design_ref, thorough(bool))
CHECKS = {
    "C03": dict(
        level="exploration",
        technique="exhaustive enumeration of the complete operator x operand-pool^2 matrix on the real evaluator against an i128/f64 reference table",
        text="Every operator is run on every ordered pair of a 76-value edge pool (all six value types; i64 extremes and neighbours, 2^53/2^63 boundaries, signed zeros, subnormals, infinities, NaN, non-ASCII strings, nested/empty tuples) through three routes (variables, literals, op-assign) in two build profiles (overflow checks on and off) and compared with an independent reference. Complete for the pool, so any per-operator or per-type-pair slip is found; values outside the pool are not covered.",
        note="Trusted: the reference table mc/src/refmodel/ops.rs; Rust's f64 arithmetic and powf (same libm on both sides). Accepted both ways: MIN % -1, int/float ordering beyond 2^53, ==/!= on NaN and signed zero.",
        design_ref="DESIGN.md section 4, C03",
    ),
}

NOT_APPLICABLE = {}

PENDING_REASON = "check not built yet at this commit (work in progress; see DESIGN.md section 4 for the planned check)"

def main():
    props = [json.loads(l)["id"] for l in open(f"{V}/properties.jsonl")]
    checks = []
    for pid in props:
        if pid not in CHECKS:
            continue
        c = CHECKS[pid]
        entry = {
            "property_id": pid,
            "quick_cmd": f"./check {pid} quick",
            "thorough_cmd": f"./check {pid} thorough",
            "evidence_file": f"/verif/evidence/{pid}.json",
            "replay_cmd_template": f"./check {pid} --replay {{path}}",
            "engine": c.get("engine", "evx-mc"),
            "level_claimed": {"category": c["level"], "text": c["text"], "design_ref": c["design_ref"]},
            "level_note": c["note"],
            "technique": c["technique"],
        }
        checks.append(entry)
    na = []
    for pid in props:
        if pid in CHECKS:
            continue
        na.append({"property_id": pid, "reason": NOT_APPLICABLE.get(pid, PENDING_REASON)})
    manifest = {
        "version": 1,
        "setup_cmd": "./check setup",
        "hooks": {
            "guard": "evalexpr_verif",
            "enable": "no source hook is needed: every check drives evalexpr through its public API (user functions, user Context implementations, Node accessors); the harness crates depend on /repo by path and rebuild it from the working tree on every run. The guard name is reserved (RUSTFLAGS=\"--cfg evalexpr_verif\") and currently guards nothing.",
            "baseline_off_cmd": "cd /repo && cargo test --workspace --no-fail-fast --offline",
            "source_commits": [],
            "add_only": True,
        },
        "engines": [
            {
                "name": "evx-mc",
                "path": "/verif/mc",
                "serves_properties": [p for p in props if p in CHECKS and CHECKS[p].get("engine", "evx-mc") == "evx-mc"],
                "kind_free_text": "Rust harness (stable toolchain, path dependency on /repo): bounded exhaustive enumeration of token sequences / ASTs / operand matrices / operation histories / schedules on the real code, compared with reference models in mc/src/refmodel; explicit-state search with stateright for C04; own deviation-bounded scheduler over real OS threads for C15",
            },
        ],
        "checks": checks,
        "not_applicable": na,
        "notes": "Exit protocol of every command: 0 = held on everything explored (KNOWN-FINDING lines possible), 1 = VIOLATION property=<id> replay=<path>, 2 = MACHINERY-ERROR (build failure, engine crash, vacuity guard not reached) which is never a verdict. Known findings: /verif/known_findings.txt. Detection demonstrations: /verif/seeded/.",
    }
    if any(CHECKS[p].get("engine") == "evx-mc-serde" for p in CHECKS):
        manifest["engines"].append({
            "name": "evx-mc-serde",
            "path": "/verif/mc-serde",
            "serves_properties": ["C16"],
            "kind_free_text": "separate Rust harness on the repository's pinned toolchain 1.81 (the only one whose offline registry has ron), evalexpr built with the serde feature",
        })
    json.dump(manifest, open(f"{V}/MANIFEST.json", "w"), indent=1)
    print(f"MANIFEST.json: {len(checks)} checks, {len(na)} not_applicable")

if __name__ == "__main__":
    main()
