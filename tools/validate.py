#!/usr/bin/env python3
"""Validates MANIFEST.json and every evidence file against the schemas in /root/.vp."""
import json, glob, sys
try:
    import jsonschema
except ImportError:
    sys.path.insert(0, "/opt/veriftools/pyvenv/lib/python3.11/site-packages")
    import jsonschema
ok = True
ms = json.load(open("/root/.vp/MANIFEST.schema.json"))
es = json.load(open("/root/.vp/EVIDENCE.schema.json"))
try:
    jsonschema.validate(json.load(open("/verif/MANIFEST.json")), ms); print("MANIFEST ok")
except Exception as e:
    ok = False; print("MANIFEST INVALID", str(e)[:500])
for f in sorted(glob.glob("/verif/evidence/*.json")):
    try:
        jsonschema.validate(json.load(open(f)), es); print(f, "ok")
    except Exception as e:
        ok = False; print(f, "INVALID", str(e)[:500])
sys.exit(0 if ok else 1)
