//! C15, loom pass: exhaustive exploration (loom's DPOR, preemption-bounded) of 2-3 threads that share one
//! precompiled `Node` and one `HashMapContext`, run against a copy of evalexpr whose synchronisation
//! primitives were mechanically replaced by loom's (tools/loomify.py). It complements the baton scheduler
//! of mc/src/props/c15.rs, whose scheduling points are the harness-owned user functions: here every atomic
//! operation, lock and unlock *inside the library* is a scheduling point as well, so a race between two
//! library-internal steps (a cache that publishes its flag before its value, a lock released between check
//! and act) is inside the explored space. On the pinned tree the library contains no synchronisation at
//! all (and `#![forbid(unsafe_code)]`), so the only scheduling points are the yields of the user functions
//! and loom confirms what the baton scheduler reports.
//!
//! Usage: evx-mc-loom <quick|thorough> --part-out <file> [--replacements <n>]     all workloads, one child each
//!        evx-mc-loom --child <workload> <preemption bound|none> <max seconds>     one workload, JSON on stdout
//!        evx-mc-loom --replay <file>                                              re-run the recorded workload
//! Oracle: each thread's observations (results, typed results, printed tree, identifier lists) and its own
//! user-function calls equal those of a sequential run on separately built objects; afterwards the shared
//! objects still give the sequential answers.

use evalexpr::*;
use std::sync::atomic::{AtomicU64, Ordering};
use std::sync::{Arc, Mutex};
use std::time::{Duration, Instant};

type Ctx = HashMapContext<DefaultNumericTypes>;
type V = Value<DefaultNumericTypes>;
type N = Node<DefaultNumericTypes>;
type Log = Arc<Mutex<Vec<(usize, String)>>>;

static ITERATIONS: AtomicU64 = AtomicU64::new(0);
static DETAIL: Mutex<Option<String>> = Mutex::new(None);
static PANIC_MSG: Mutex<Option<String>> = Mutex::new(None);

struct Built {
    ctx: Ctx,
    /// one tree shared by all threads, or one per thread
    trees: Vec<N>,
    log: Log,
}

struct Workload {
    name: &'static str,
    threads: usize,
    /// sources of the trees: one (shared by all threads) or one per thread
    sources: &'static [&'static str],
    /// what a thread observes: 0 = untyped evaluation; 1 = also typed views, printing, iterators, clone
    rich: bool,
    what: &'static str,
}

const WORKLOADS: &[Workload] = &[
    Workload { name: "constants-shared-tree", threads: 2, sources: &["(1 + 2) * 3 + len(\"abc\" + \"def\") + x"], rich: false,
        what: "a context-independent subexpression in a freshly built shared tree" },
    Workload { name: "constants-three-threads", threads: 3, sources: &["\"abcdefgh\" + \"ijklmnop\" == s"], rich: false,
        what: "three threads on one fresh tree with a constant string subexpression" },
    Workload { name: "yielding-calls-shared-tree", threads: 2, sources: &["y(me) + z(me) * 2 + x"], rich: false,
        what: "both threads inside the same yielding user functions" },
    Workload { name: "builtin-while-other-in-user-function", threads: 2, sources: &["y(me) + y(me + 1)", "len(s) + max(x, 2) + math::abs(0 - x)"], rich: false,
        what: "one thread calls builtins while the other is inside a user function" },
    Workload { name: "shadowed-builtin", threads: 2, sources: &["len(s) * 100 + len(\"ab\")"], rich: false,
        what: "a yielding user function that shadows a builtin, called by both threads" },
    Workload { name: "one-fails", threads: 2, sources: &["y(me) + boom(me) + y(me)", "y(me) + z(me)"], rich: false,
        what: "one thread's evaluation fails inside a user function while the other succeeds" },
    Workload { name: "nested-calls", threads: 2, sources: &["y(z(y(me))) + x", "z(y(me), x)"], rich: false,
        what: "nested calls and a tuple argument" },
    Workload { name: "unknown-names", threads: 2, sources: &["y(me) + nope", "nofun(y(me))"], rich: false,
        what: "unknown variable / unknown function errors while the other thread is active" },
    Workload { name: "rich-observation", threads: 2, sources: &["(y(me), x + 1, s); z(me) + 0.5"], rich: true,
        what: "typed views, printing, identifier iterators and cloning of the shared tree" },
    Workload { name: "operators-and-builtins", threads: 2, sources: &[
        "(str::to_uppercase(str::from(me) + \"ab\"), me ^ 2, math::pow(me, 2), (1; 2; 3; me), if(me > 150, 1, 2), str::from((me, me + 1, \"t\")), contains((me, 2), me), min(me, 3), max(2.5, me), me % 7, -me, me < 150, str::trim(\" x \"), len(s), bitand(me, 6), shl(me, 2), math::sqrt(me), floor(me / 3.0), typeof(me), (me, (me, 1)) == (me, (me, 1)), s + \"z\", !(me == 1), me / 7 * 3 - 1)",
        "(str::to_uppercase(\"xyz\" + str::from(me)), me ^ 3, math::pow(2, me % 5), (me; 7), if(me > 150, \"a\", \"b\"), str::from((me, (me, 2.5))), contains((1, 2, 3), me), min(me, 300, 5), max(me, 1), me % 9, -(me + 1), me >= 200, str::trim(\"\ty\"), len((me, 1, 2)), bitor(me, 1), shr(me, 1), math::ln(me), ceil(me / 7.0), typeof(s), (me, 2) != (me, 3), \"q\" + s, !(me != 1), me * 3 / 7 + 1)"], rich: false,
        what: "every operator class and a spread of builtins with thread-specific arguments and shapes (a process-wide cache inside any of them shows as another thread's value)" },
    Workload { name: "bulk-math", threads: 2, sources: &["(math::sin(2.0), math::cos(2.75), math::ln(4.0), math::exp(4.25), math::sqrt(5.5), math::tan(5.75), math::atan(6.5), math::cbrt(7.25), math::sinh(8.0), math::log2(9.25), math::log10(10.0), math::exp2(10.25), math::sin(11.0), math::cos(11.75), math::ln(13.0), math::exp(13.25), math::sqrt(14.5), math::tan(14.75), math::atan(15.5), math::cbrt(16.25), math::sinh(17.0), math::log2(18.25), math::log10(19.0), math::exp2(19.25))", "(math::sin(5.0), math::cos(5.75), math::ln(7.0), math::exp(7.25), math::sqrt(8.5), math::tan(8.75), math::atan(9.5), math::cbrt(10.25), math::sinh(11.0), math::log2(12.25), math::log10(13.0), math::exp2(13.25), math::sin(14.0), math::cos(14.75), math::ln(16.0), math::exp(16.25), math::sqrt(17.5), math::tan(17.75), math::atan(18.5), math::cbrt(19.25), math::sinh(20.0), math::log2(21.25), math::log10(22.0), math::exp2(22.25))"], rich: false,
        what: "24 transcendental calls per thread on overlapping and distinct arguments (a process-wide memo table with few slots makes some of them collide)" },
    Workload { name: "bulk-case-conversion", threads: 2, sources: &["(str::to_lowercase(\"Alpha-Subject-Number-00-With-Enough-Characters-To-Be-Long\"), str::to_uppercase(\"Alpha-Subject-Number-01-With-Enough-Characters-To-Be-Long\"), str::to_lowercase(\"Alpha-Subject-Number-02-With-Enough-Characters-To-Be-Long\"), str::to_uppercase(\"Alpha-Subject-Number-03-With-Enough-Characters-To-Be-Long\"), str::to_lowercase(\"Alpha-Subject-Number-04-With-Enough-Characters-To-Be-Long\"), str::to_uppercase(\"Alpha-Subject-Number-05-With-Enough-Characters-To-Be-Long\"), str::to_lowercase(\"Alpha-Subject-Number-06-With-Enough-Characters-To-Be-Long\"), str::to_uppercase(\"Alpha-Subject-Number-07-With-Enough-Characters-To-Be-Long\"), str::to_lowercase(\"Alpha-Subject-Number-08-With-Enough-Characters-To-Be-Long\"), str::to_uppercase(\"Alpha-Subject-Number-09-With-Enough-Characters-To-Be-Long\"), str::to_lowercase(\"Alpha-Subject-Number-10-With-Enough-Characters-To-Be-Long\"), str::to_uppercase(\"Alpha-Subject-Number-11-With-Enough-Characters-To-Be-Long\"), str::to_lowercase(\"Alpha-Subject-Number-12-With-Enough-Characters-To-Be-Long\"), str::to_uppercase(\"Alpha-Subject-Number-13-With-Enough-Characters-To-Be-Long\"), str::to_lowercase(\"Alpha-Subject-Number-14-With-Enough-Characters-To-Be-Long\"), str::to_uppercase(\"Alpha-Subject-Number-15-With-Enough-Characters-To-Be-Long\"), str::to_lowercase(\"Alpha-Subject-Number-16-With-Enough-Characters-To-Be-Long\"), str::to_uppercase(\"Alpha-Subject-Number-17-With-Enough-Characters-To-Be-Long\"), str::to_lowercase(\"Alpha-Subject-Number-18-With-Enough-Characters-To-Be-Long\"), str::to_uppercase(\"Alpha-Subject-Number-19-With-Enough-Characters-To-Be-Long\"))", "(str::to_lowercase(\"Beta-Subject-Number-00-With-Enough-Characters-To-Be-Long\"), str::to_uppercase(\"Beta-Subject-Number-01-With-Enough-Characters-To-Be-Long\"), str::to_lowercase(\"Beta-Subject-Number-02-With-Enough-Characters-To-Be-Long\"), str::to_uppercase(\"Beta-Subject-Number-03-With-Enough-Characters-To-Be-Long\"), str::to_lowercase(\"Beta-Subject-Number-04-With-Enough-Characters-To-Be-Long\"), str::to_uppercase(\"Beta-Subject-Number-05-With-Enough-Characters-To-Be-Long\"), str::to_lowercase(\"Beta-Subject-Number-06-With-Enough-Characters-To-Be-Long\"), str::to_uppercase(\"Beta-Subject-Number-07-With-Enough-Characters-To-Be-Long\"), str::to_lowercase(\"Beta-Subject-Number-08-With-Enough-Characters-To-Be-Long\"), str::to_uppercase(\"Beta-Subject-Number-09-With-Enough-Characters-To-Be-Long\"), str::to_lowercase(\"Beta-Subject-Number-10-With-Enough-Characters-To-Be-Long\"), str::to_uppercase(\"Beta-Subject-Number-11-With-Enough-Characters-To-Be-Long\"), str::to_lowercase(\"Beta-Subject-Number-12-With-Enough-Characters-To-Be-Long\"), str::to_uppercase(\"Beta-Subject-Number-13-With-Enough-Characters-To-Be-Long\"), str::to_lowercase(\"Beta-Subject-Number-14-With-Enough-Characters-To-Be-Long\"), str::to_uppercase(\"Beta-Subject-Number-15-With-Enough-Characters-To-Be-Long\"), str::to_lowercase(\"Beta-Subject-Number-16-With-Enough-Characters-To-Be-Long\"), str::to_uppercase(\"Beta-Subject-Number-17-With-Enough-Characters-To-Be-Long\"), str::to_lowercase(\"Beta-Subject-Number-18-With-Enough-Characters-To-Be-Long\"), str::to_uppercase(\"Beta-Subject-Number-19-With-Enough-Characters-To-Be-Long\"))"], rich: false,
        what: "20 case conversions of distinct long strings per thread (a bounded process-wide memo fills up and evicts while the other thread inserts)" },
    Workload { name: "printing-and-conversion", threads: 2, sources: &["str::from((me, (me, \"a\"), (), 2.5, true)) + str::from(me) + str::from(x)"], rich: true,
        what: "Display of nested values, typed views and printing of the tree from two threads" },
    Workload { name: "builtins-disabled-context", threads: 2, sources: &["y(me) + len(s)", "y(me) + x"], rich: false,
        what: "a context with builtins disabled: the unknown-function answer must not depend on the other thread" },
];

fn build(w: &Workload) -> Built {
    let log: Log = Arc::new(Mutex::new(Vec::new()));
    let mut ctx = Ctx::new();
    ctx.set_value("x".into(), Value::Int(5)).unwrap();
    ctx.set_value("s".into(), Value::String("abcdefghijklmnop".into())).unwrap();
    // a loom atomic owned by the harness: every user function touches it on entry and on exit, which makes
    // both moments scheduling points that loom permutes across threads (a plain yield is not branched on)
    let point = Arc::new(loom::sync::atomic::AtomicUsize::new(0));
    let mk = |touches: usize, f: fn(&V) -> Result<V, EvalexprError<DefaultNumericTypes>>| {
        let point = point.clone();
        Function::new(move |a: &V| {
            for _ in 0..touches {
                point.fetch_add(1, loom::sync::atomic::Ordering::SeqCst);
            }
            let r = f(a);
            point.fetch_add(1, loom::sync::atomic::Ordering::SeqCst);
            r
        })
    };
    ctx.set_function("y".into(), mk(1, |a| Ok(a.clone()))).unwrap();
    ctx.set_function(
        "z".into(),
        mk(1, |a| {
            Ok(match a {
                Value::Int(i) => Value::Int(i * 2),
                Value::Tuple(t) => Value::Int(t.len() as i64),
                other => other.clone(),
            })
        }),
    )
    .unwrap();
    ctx.set_function("boom".into(), mk(1, |_| Err(EvalexprError::CustomMessage("boom".into())))).unwrap();
    if w.name == "shadowed-builtin" {
        ctx.set_function(
            "len".into(),
            mk(1, |a| {
                Ok(match a {
                    Value::String(s) => Value::Int(s.chars().count() as i64 + 1000),
                    _ => Value::Int(-1),
                })
            }),
        )
        .unwrap();
    }
    if w.name == "builtins-disabled-context" {
        ctx.set_builtin_functions_disabled(true).unwrap();
    }
    let trees = w.sources.iter().map(|s| build_operator_tree::<DefaultNumericTypes>(s).expect("workload source precompiles")).collect();
    Built { ctx, trees, log }
}

/// What thread `tid` does with the shared objects, as one printable observation.
fn body(w: &Workload, tid: usize, tree: &N, ctx: &Ctx, log: &Log) -> String {
    // `me` distinguishes the threads' calls in the log: it is bound per thread through a wrapper context
    let me = Value::Int(100 * (tid as i64 + 1));
    let wc = WithMe { inner: ctx, me, tid, log: log.clone() };
    let mut out = format!("{:?}", tree.eval_with_context(&wc));
    if w.rich {
        out.push_str(&format!(" | int {:?}", tree.eval_int_with_context(&wc)));
        out.push_str(&format!(" | float {:?}", tree.eval_float_with_context(&wc)));
        out.push_str(&format!(" | number {:?}", tree.eval_number_with_context(&wc)));
        out.push_str(&format!(" | tuple {:?}", tree.eval_tuple_with_context(&wc)));
        out.push_str(&format!(" | printed {}", tree));
        out.push_str(&format!(" | vars {:?}", tree.iter_variable_identifiers().collect::<Vec<_>>()));
        out.push_str(&format!(" | funs {:?}", tree.iter_function_identifiers().collect::<Vec<_>>()));
        let copy = tree.clone();
        out.push_str(&format!(" | clone {:?}", copy.eval_with_context(&wc)));
        out.push_str(&format!(" | equal {}", &copy == tree));
    }
    out
}

/// The shared context plus one thread-private variable `me`.
struct WithMe<'a> {
    inner: &'a Ctx,
    me: V,
    tid: usize,
    log: Log,
}
impl<'a> Context for WithMe<'a> {
    type NumericTypes = DefaultNumericTypes;
    fn get_value(&self, identifier: &str) -> Option<&V> {
        if identifier == "me" {
            Some(&self.me)
        } else {
            self.inner.get_value(identifier)
        }
    }
    fn call_function(&self, identifier: &str, argument: &V) -> Result<V, EvalexprError<DefaultNumericTypes>> {
        // the wrapper is private to its thread, so it can attribute the call; the shared context does the work
        let r = self.inner.call_function(identifier, argument);
        self.log.lock().unwrap().push((self.tid, format!("{}({:?}) -> {:?}", identifier, argument, r)));
        r
    }
    fn are_builtin_functions_disabled(&self) -> bool {
        self.inner.are_builtin_functions_disabled()
    }
    fn set_builtin_functions_disabled(&mut self, _disabled: bool) -> Result<(), EvalexprError<DefaultNumericTypes>> {
        Err(EvalexprError::CustomMessage("read-only wrapper".into()))
    }
}

/// The calls a thread made (with their results), in its own order.
fn calls_of(log: &[(usize, String)], tid: usize) -> Vec<String> {
    log.iter().filter(|(t, _)| *t == tid).map(|(_, c)| c.clone()).collect()
}

fn one_iteration(w: &'static Workload) {
    ITERATIONS.fetch_add(1, Ordering::Relaxed);
    // the concurrent run on fresh objects
    let built = build(w);
    let log = built.log.clone();
    let shared = Arc::new(built);
    let mut handles = Vec::new();
    for tid in 0..w.threads {
        let shared = shared.clone();
        handles.push(loom::thread::spawn(move || {
            let tree = &shared.trees[if shared.trees.len() == 1 { 0 } else { tid % shared.trees.len() }];
            body(w, tid, tree, &shared.ctx, &shared.log)
        }));
    }
    let got_obs: Vec<String> = handles.into_iter().map(|h| h.join().expect("worker thread panicked")).collect();
    let got_log = log.lock().unwrap().clone();
    // the sequential reference, on objects of its own — computed *after* the concurrent run, so that the
    // threads meet every process-wide lazily built state cold (a once-initialisation that publishes too early
    // is only visible to the first concurrent callers)
    let reference = build(w);
    let mut want_obs = Vec::new();
    for tid in 0..w.threads {
        let tree = &reference.trees[if reference.trees.len() == 1 { 0 } else { tid % reference.trees.len() }];
        want_obs.push(body(w, tid, tree, &reference.ctx, &reference.log));
    }
    let ref_log = reference.log.lock().unwrap().clone();
    let want_calls: Vec<Vec<String>> = (0..w.threads).map(|t| calls_of(&ref_log, t)).collect();

    for tid in 0..w.threads {
        let got_calls = calls_of(&got_log, tid);
        if got_obs[tid] != want_obs[tid] || got_calls != want_calls[tid] {
            *DETAIL.lock().unwrap() = Some(format!(
                "thread {} of workload {}: concurrently {} with calls {:?}; sequentially {} with calls {:?}; interleaved call log {:?}",
                tid, w.name, got_obs[tid], got_calls, want_obs[tid], want_calls[tid], got_log
            ));
            panic!("C15-MISMATCH");
        }
    }
    // afterwards the shared objects still behave sequentially
    log.lock().unwrap().clear();
    for tid in 0..w.threads {
        let tree = &shared.trees[if shared.trees.len() == 1 { 0 } else { tid % shared.trees.len() }];
        let again = body(w, tid, tree, &shared.ctx, &shared.log);
        if again != want_obs[tid] {
            *DETAIL.lock().unwrap() = Some(format!(
                "workload {}: after the threads were joined, the shared objects give {} where a fresh sequential run gives {}",
                w.name, again, want_obs[tid]
            ));
            panic!("C15-MISMATCH");
        }
    }
}

fn esc(s: &str) -> String {
    let mut o = String::from("\"");
    for c in s.chars() {
        match c {
            '"' => o.push_str("\\\""),
            '\\' => o.push_str("\\\\"),
            '\n' => o.push_str("\\n"),
            '\t' => o.push_str("\\t"),
            c if (c as u32) < 0x20 => o.push_str(&format!("\\u{:04x}", c as u32)),
            c => o.push(c),
        }
    }
    o.push('"');
    o
}

fn child(name: &str, bound: &str, secs: u64) -> i32 {
    let w: &'static Workload = match WORKLOADS.iter().find(|w| w.name == name) {
        Some(w) => w,
        None => {
            eprintln!("unknown workload {}", name);
            return 2;
        },
    };
    std::panic::set_hook(Box::new(|info| {
        let msg = if let Some(s) = info.payload().downcast_ref::<&str>() {
            s.to_string()
        } else if let Some(s) = info.payload().downcast_ref::<String>() {
            s.clone()
        } else {
            "panic".to_string()
        };
        let loc = info.location().map(|l| format!("{}:{}", l.file(), l.line())).unwrap_or_default();
        let mut g = PANIC_MSG.lock().unwrap_or_else(|e| e.into_inner());
        if g.is_none() {
            *g = Some(format!("{} at {}", msg, loc));
        }
    }));
    let mut b = loom::model::Builder::new();
    b.preemption_bound = bound.parse::<usize>().ok();
    b.max_branches = 200_000;
    b.max_threads = 4;
    b.checkpoint_interval = 200;
    b.max_duration = Some(Duration::from_secs(secs));
    let start = Instant::now();
    let r = std::panic::catch_unwind(std::panic::AssertUnwindSafe(|| b.check(move || one_iteration(w))));
    let wall = start.elapsed().as_secs_f64();
    let iterations = ITERATIONS.load(Ordering::Relaxed);
    let (outcome, detail) = match r {
        Ok(()) => ("ok", String::new()),
        Err(_) => {
            let msg = PANIC_MSG.lock().unwrap_or_else(|e| e.into_inner()).clone().unwrap_or_default();
            let detail = DETAIL.lock().unwrap_or_else(|e| e.into_inner()).clone();
            if let Some(d) = detail {
                ("mismatch", d)
            } else if msg.to_lowercase().contains("deadlock") {
                ("deadlock", msg)
            } else {
                ("inconclusive", msg)
            }
        },
    };
    let capped = outcome == "ok" && wall >= secs as f64;
    println!(
        "{{\"workload\": {}, \"threads\": {}, \"preemption_bound\": {}, \"iterations\": {}, \"outcome\": {}, \"capped\": {}, \"detail\": {}, \"wall_s\": {:.3}}}",
        esc(w.name),
        w.threads,
        esc(bound),
        iterations,
        esc(outcome),
        capped,
        esc(&detail),
        wall
    );
    0
}

fn field<'a>(line: &'a str, key: &str) -> Option<&'a str> {
    let k = format!("\"{}\": ", key);
    let i = line.find(&k)? + k.len();
    let rest = &line[i..];
    if rest.starts_with('"') {
        // string value: up to the closing unescaped quote
        let bytes = rest.as_bytes();
        let mut j = 1;
        while j < bytes.len() {
            if bytes[j] == b'\\' {
                j += 2;
                continue;
            }
            if bytes[j] == b'"' {
                return Some(&rest[..=j]);
            }
            j += 1;
        }
        None
    } else {
        let end = rest.find([',', '}']).unwrap_or(rest.len());
        Some(rest[..end].trim())
    }
}

fn parent(tier: &str, part_out: &str, replacements: u64) -> i32 {
    let exe = std::env::current_exe().expect("own path");
    let (bounds, secs): (&[&str], u64) = if tier == "thorough" { (&["2", "3", "none"], 120) } else { (&["2"], 25) };
    let start = Instant::now();
    let mut jobs = Vec::new();
    for w in WORKLOADS {
        for b in bounds {
            // `timeout`: a library-internal primitive loom does not model (Once, OnceLock, a std lock left
            // in place) can block the single OS thread loom runs its threads on; that run is inconclusive
            let child = std::process::Command::new("timeout")
                .arg((secs + 30).to_string())
                .arg(&exe)
                .args(["--child", w.name, b, &secs.to_string()])
                .stdout(std::process::Stdio::piped())
                .stderr(std::process::Stdio::null())
                .spawn();
            jobs.push((w, *b, child));
        }
    }
    let mut rows = Vec::new();
    let mut violations = Vec::new();
    let mut iterations_total = 0u64;
    let mut machinery: Vec<String> = Vec::new();
    let mut inconclusive = 0u64;
    let mut capped = 0u64;
    for (w, b, child) in jobs {
        let out = match child.and_then(|c| c.wait_with_output()) {
            Ok(o) => o,
            Err(e) => {
                machinery.push(format!("{}: cannot run child: {}", w.name, e));
                continue;
            },
        };
        let text = String::from_utf8_lossy(&out.stdout).to_string();
        let line = match text.lines().rev().find(|l| l.starts_with("{\"workload\"")) {
            Some(l) => l.to_string(),
            None if out.status.code() == Some(124) => {
                inconclusive += 1;
                rows.push(format!(
                    "{{\"workload\": {}, \"threads\": {}, \"preemption_bound\": {}, \"iterations\": 0, \"outcome\": \"inconclusive\", \"capped\": true, \"detail\": \"no result within {} s (blocked outside loom's model)\", \"wall_s\": {}}}",
                    esc(w.name), w.threads, esc(b), secs + 30, secs + 30
                ));
                continue;
            },
            None => {
                // the child died without a result (a signal: the rewritten copy misbehaves under loom's runtime,
                // e.g. its own panic hook or unwinding inside a loom thread): inconclusive, not a verdict
                inconclusive += 1;
                rows.push(format!(
                    "{{\"workload\": {}, \"threads\": {}, \"preemption_bound\": {}, \"iterations\": 0, \"outcome\": \"inconclusive\", \"capped\": false, \"detail\": \"the child process ended without a result (status {:?})\", \"wall_s\": 0}}",
                    esc(w.name), w.threads, esc(b), out.status.code()
                ));
                continue;
            },
        };
        let its: u64 = field(&line, "iterations").and_then(|s| s.parse().ok()).unwrap_or(0);
        iterations_total += its;
        let outcome = field(&line, "outcome").unwrap_or("\"?\"").trim_matches('"').to_string();
        if field(&line, "capped") == Some("true") {
            capped += 1;
        }
        match outcome.as_str() {
            "ok" => {},
            "mismatch" | "deadlock" => {
                let detail = field(&line, "detail").unwrap_or("\"\"").to_string();
                violations.push(format!(
                    "{{\"property\": \"C15\", \"kind\": {}, \"input\": {{\"engine\": \"loom\", \"workload\": {}, \"preemption_bound\": {}, \"sources\": [{}]}}, \"expected\": {}, \"actual\": {}, \"unit_test\": {}}}",
                    esc(&format!("loom-{}", if outcome == "deadlock" { "deadlock" } else { "concurrent-result-differs-from-sequential" })),
                    esc(w.name),
                    esc(b),
                    w.sources.iter().map(|s| esc(s)).collect::<Vec<_>>().join(", "),
                    esc("every thread observes what a sequential run observes, and the threads finish"),
                    detail,
                    esc(&format!("// re-run: /verif/check C15 --replay <this file>  (workload {}: {})", w.name, w.what))
                ));
            },
            _ => inconclusive += 1,
        }
        rows.push(line);
    }
    if !machinery.is_empty() {
        for m in &machinery {
            println!("MACHINERY-ERROR loom pass: {}", m);
        }
        return 2;
    }
    let wall = start.elapsed().as_secs_f64();
    let part = format!(
        "{{\n \"overflow_checks\": true,\n \"engine\": \"loom 0.7 on a copy of /repo/src with std::sync rewritten to loom::sync (tools/loomify.py)\",\n \"replacements_made_by_loomify\": {},\n \"stats\": {{\"evaluations\": {}, \"counters\": {{\"loom/iterations\": {}, \"loom/workload-runs\": {}, \"loom/inconclusive-runs\": {}, \"loom/capped-runs\": {}}}}},\n \"violations\": [{}],\n \"known_example\": {{}},\n \"guards_failed\": [],\n \"runs\": [\n  {}\n ],\n \"wall_s\": {:.3}\n}}\n",
        replacements,
        iterations_total,
        iterations_total,
        rows.len(),
        inconclusive,
        capped,
        violations.join(", "),
        rows.join(",\n  "),
        wall
    );
    if let Some(dir) = std::path::Path::new(part_out).parent() {
        let _ = std::fs::create_dir_all(dir);
    }
    if let Err(e) = std::fs::write(part_out, part) {
        println!("MACHINERY-ERROR loom pass: cannot write {}: {}", part_out, e);
        return 2;
    }
    if !rows.is_empty() && inconclusive as usize * 2 > rows.len() {
        println!("C15 loom pass ({}): most runs were inconclusive; the pass is not applicable to this tree", tier);
        return 3;
    }
    println!(
        "C15 loom pass ({}): workload runs={} iterations={} violations={} inconclusive={} capped={} replacements={} wall={:.1}s",
        tier,
        rows.len(),
        iterations_total,
        violations.len(),
        inconclusive,
        capped,
        replacements,
        wall
    );
    0
}

fn replay(path: &str) -> i32 {
    let text = match std::fs::read_to_string(path) {
        Ok(t) => t,
        Err(e) => {
            println!("MACHINERY-ERROR cannot read {}: {}", path, e);
            return 2;
        },
    };
    let name = field(&text, "workload").map(|s| s.trim_matches('"').to_string()).unwrap_or_default();
    let bound = field(&text, "preemption_bound").map(|s| s.trim_matches('"').to_string()).unwrap_or_else(|| "2".into());
    let exe = std::env::current_exe().expect("own path");
    let out = std::process::Command::new(exe).args(["--child", &name, &bound, "120"]).stderr(std::process::Stdio::null()).output();
    match out {
        Ok(o) => {
            let t = String::from_utf8_lossy(&o.stdout).to_string();
            let line = t.lines().rev().find(|l| l.starts_with("{\"workload\"")).unwrap_or("").to_string();
            println!("{}", line);
            let outcome = field(&line, "outcome").unwrap_or("\"?\"").trim_matches('"').to_string();
            match outcome.as_str() {
                "ok" => {
                    println!("replay: the property holds on this workload");
                    0
                },
                "mismatch" | "deadlock" => {
                    println!("VIOLATION property=C15 replay={}", path);
                    1
                },
                _ => {
                    println!("MACHINERY-ERROR loom replay inconclusive");
                    2
                },
            }
        },
        Err(e) => {
            println!("MACHINERY-ERROR cannot run child: {}", e);
            2
        },
    }
}

fn main() {
    let args: Vec<String> = std::env::args().collect();
    let code = match args.get(1).map(|s| s.as_str()) {
        Some("--child") if args.len() >= 5 => child(&args[2], &args[3], args[4].parse().unwrap_or(20)),
        Some("--replay") if args.len() >= 3 => replay(&args[2]),
        Some(tier @ ("quick" | "thorough")) => {
            let mut part = String::from("/verif/.target/parts/C15.loom.json");
            let mut repl = 0u64;
            let mut i = 2;
            while i + 1 < args.len() {
                match args[i].as_str() {
                    "--part-out" => part = args[i + 1].clone(),
                    "--replacements" => repl = args[i + 1].parse().unwrap_or(0),
                    _ => {},
                }
                i += 2;
            }
            parent(tier, &part, repl)
        },
        _ => {
            println!("usage: evx-mc-loom <quick|thorough> --part-out <file> [--replacements <n>] | --child <workload> <bound|none> <secs> | --replay <file>");
            2
        },
    };
    std::process::exit(code);
}
